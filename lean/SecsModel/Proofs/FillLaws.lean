/-
Laws of FillVariables on the model: a fill that binds none of a template's variables gives the
template back, at every nesting depth (unknown keys are ignored; the structure is rebuilt
through the factories and they return it unchanged).
-/
import SecsModel.Model.Fill
import SecsModel.Proofs.PrintToks
namespace Secs
open Sml

-- no ellipsis variable anywhere in the tree
mutual
def noEllT : Tmpl → Bool
  | .list xs => noEllS xs
  | _ => true
def noEllS : Slots → Bool
  | .nil => true
  | .item t r => noEllT t && noEllS r
  | .var n r => !isEllipsis n && noEllS r
end

theorem findEll_noEll (ev : Env) : ∀ (xs : Slots) (i : Nat), noEllS xs = true → findEll ev xs i = none
  | .nil, _, _ => rfl
  | .item _ r, i, h => by
    simp only [noEllS, Bool.and_eq_true] at h
    simp only [findEll]; exact findEll_noEll ev r (i + 1) h.2
  | .var n r, i, h => by
    simp only [noEllS, Bool.and_eq_true, Bool.not_eq_true'] at h
    simp only [findEll, h.1, Bool.false_eq_true, if_false]; exact findEll_noEll ev r (i + 1) h.2

theorem hasUnfilled_noEll (ev : Env) : ∀ xs : Slots, noEllS xs = true → hasUnfilledEll ev xs = false
  | .nil, _ => rfl
  | .item _ r, h => by
    simp only [noEllS, Bool.and_eq_true] at h
    simp only [hasUnfilledEll]; exact hasUnfilled_noEll ev r h.2
  | .var n r, h => by
    simp only [noEllS, Bool.and_eq_true, Bool.not_eq_true'] at h
    simp [hasUnfilledEll, h.1, hasUnfilled_noEll ev r h.2]

mutual
theorem ellAnalysisT_noEll (ev : Env) : ∀ t : Tmpl, noEllT t = true → ellAnalysisT ev t = some (0, 0)
  | .list xs, h => by
    have hx : noEllS xs = true := by simpa [noEllT] using h
    simp [ellAnalysisT, findEll_noEll ev xs 0 hx, ellAnalysisS_noEll ev xs hx, hasUnfilled_noEll ev xs hx]
  | .ascii _, _ => rfl
  | .asciiVar _ _ _, _ => rfl
  | .binary _, _ => rfl
  | .boolean _, _ => rfl
  | .int _ _, _ => rfl
  | .uint _ _, _ => rfl
  | .float _ _, _ => rfl
  | .empty, _ => rfl
theorem ellAnalysisS_noEll (ev : Env) : ∀ xs : Slots, noEllS xs = true → ellAnalysisS ev xs = some (0, 0)
  | .nil, _ => rfl
  | .var n r, h => by
    simp only [noEllS, Bool.and_eq_true] at h
    simp only [ellAnalysisS]; exact ellAnalysisS_noEll ev r h.2
  | .item t r, h => by
    simp only [noEllS, Bool.and_eq_true] at h
    simp [ellAnalysisS, ellAnalysisT_noEll ev t h.1, ellAnalysisS_noEll ev r h.2]
end

/-- an ellipsis-free list: FillVariables is the second phase only -/
theorem fill_list_noEll (fuel : Nat) (xs : Slots) (env : Env) (h : noEllS xs = true) :
    fill (fuel + 1) (.list xs) env =
      (fillSlots (fun t => fill fuel t (env.filter (fun kv => !isEllKey kv))) (env.filter (fun kv => !isEllKey kv)) xs).bind mkList := by
  have ha := ellAnalysisT_noEll (env.filter isEllKey) (.list xs) (by simpa [noEllT] using h)
  simp only [fill, ha]
  split
  · simp_all
    split <;> simp_all
  · simp_all

theorem get_filter_none (env : Env) (p : Name × GoVal → Bool) (n : Name) (h : env.get? n = none) :
    Env.get? (env.filter p) n = none := by
  induction env with
  | nil => rfl
  | cons kv r ih =>
    obtain ⟨k, v⟩ := kv
    simp only [Env.get?] at h
    split at h
    · cases h
    · rename_i hk
      simp only [List.filter_cons]
      split
      · simp only [Env.get?, hk, Bool.false_eq_true, if_false]; exact ih h
      · exact ih h

theorem fillLeaf_unbound (t : Tmpl) (env : Env) (hl : t.isList = false) (hu : ∀ v ∈ t.vars, env.get? v = none) :
    fillLeaf t env = some t := by
  have hany : ∀ {α} (xs : List (Slot α)), (∀ v ∈ slotVars xs, env.get? v = none) → anyBound env xs = false := by
    intro α xs h
    simp only [anyBound, List.any_eq_false]
    intro v hv
    simp [h v hv]
  cases t with
  | list xs => simp [Tmpl.isList] at hl
  | ascii s => rfl
  | asciiVar n mn mx => simp [fillLeaf, hu n (by simp [Tmpl.vars])]
  | empty => rfl
  | binary xs => simp [fillLeaf, hany xs (by simpa [Tmpl.vars] using hu)]
  | boolean xs => simp [fillLeaf, hany xs (by simpa [Tmpl.vars] using hu)]
  | int w xs => simp [fillLeaf, hany xs (by simpa [Tmpl.vars] using hu)]
  | uint w xs => simp [fillLeaf, hany xs (by simpa [Tmpl.vars] using hu)]
  | float w xs => simp [fillLeaf, hany xs (by simpa [Tmpl.vars] using hu)]

mutual
/-- **Unknown keys are ignored, at every depth**: a fill that binds no variable of an
ellipsis-free, well-formed template returns the template itself. -/
theorem fill_identity : ∀ (t : Tmpl) (fuel : Nat) (env : Env), t.depth ≤ fuel → t.wf = true → noEllT t = true →
    (∀ v ∈ t.vars, env.get? v = none) → fill (fuel + 1) t env = some t
  | .list xs, fuel, env, hd, hw, hn, hu => by
    have hx : noEllS xs = true := by simpa [noEllT] using hn
    have hwf := hw
    simp only [Tmpl.wf, Bool.and_eq_true] at hwf
    cases fuel with
    | zero => simp [Tmpl.depth] at hd
    | succ k =>
      rw [fill_list_noEll (k + 1) xs env hx]
      have := fillSlots_identity xs k (env.filter (fun kv => !isEllKey kv)) (by simp [Tmpl.depth] at hd; omega) hwf.1.1.2 hx
        (fun v hv => get_filter_none env _ v (hu v (by simpa [Tmpl.vars] using hv)))
      rw [this]
      exact mkList_wf xs hw
  | .ascii s, fuel, env, _, _, _, hu => by simp [fill, fillLeaf]
  | .asciiVar n a b, fuel, env, _, _, _, hu => by simpa [fill] using fillLeaf_unbound _ env rfl hu
  | .binary xs, fuel, env, _, _, _, hu => by simpa [fill] using fillLeaf_unbound _ env rfl hu
  | .boolean xs, fuel, env, _, _, _, hu => by simpa [fill] using fillLeaf_unbound _ env rfl hu
  | .int w xs, fuel, env, _, _, _, hu => by simpa [fill] using fillLeaf_unbound _ env rfl hu
  | .uint w xs, fuel, env, _, _, _, hu => by simpa [fill] using fillLeaf_unbound _ env rfl hu
  | .float w xs, fuel, env, _, _, _, hu => by simpa [fill] using fillLeaf_unbound _ env rfl hu
  | .empty, fuel, env, _, _, _, _ => by simp [fill, fillLeaf]
theorem fillSlots_identity : ∀ (xs : Slots) (fuel : Nat) (ov : Env), xs.depth ≤ fuel → xs.wfAll = true → noEllS xs = true →
    (∀ v ∈ xs.vars, ov.get? v = none) →
    fillSlots (fun t => fill (fuel + 1) t ov) ov xs = some (slotArgs xs)
  | .nil, _, _, _, _, _, _ => rfl
  | .var n r, fuel, ov, hd, hw, hn, hu => by
    simp only [noEllS, Bool.and_eq_true] at hn
    have := fillSlots_identity r fuel ov (by simpa [Slots.depth] using hd) (by simpa [Slots.wfAll] using hw) hn.2
      (fun v hv => hu v (by simp [Slots.vars, hv]))
    simp [fillSlots, this, hu n (by simp [Slots.vars]), slotArgs]
  | .item t r, fuel, ov, hd, hw, hn, hu => by
    simp only [noEllS, Bool.and_eq_true] at hn
    simp only [Slots.wfAll, Bool.and_eq_true] at hw
    simp only [Slots.depth] at hd
    have hvt : ∀ v ∈ t.vars, ov.get? v = none := by
      intro v hv
      apply hu
      cases t <;> simp_all [Slots.vars, Tmpl.vars]
    have hvr : ∀ v ∈ r.vars, ov.get? v = none := by
      intro v hv
      apply hu
      cases t <;> simp_all [Slots.vars]
    have h1 := fill_identity t fuel ov (by omega) hw.1 hn.1 hvt
    have h2 := fillSlots_identity r fuel ov (by omega) hw.2 hn.2 hvr
    simp [fillSlots, h1, h2, slotArgs]
end

/-- ItemNode.FillVariables with a table that names none of the template's variables -/
theorem Tmpl.fill_unknown (t : Tmpl) (env : Env) (hw : t.wf = true) (hn : noEllT t = true)
    (hu : ∀ v ∈ t.vars, env.get? v = none) : t.fill env = some t :=
  fill_identity t t.depth env (Nat.le_refl _) hw hn hu

end Secs

/-! ## Composition: filling in two steps is filling once with the union of the tables

`e1 ++ e2` is the union in which `e1` wins on a common key (the key is no longer a variable
when `e2` is applied). The fill-in values are closed: a value for an array slot is not itself a
variable name. -/
namespace Secs

theorem get_append (e1 e2 : Env) (n : Name) :
    Env.get? (e1 ++ e2) n = (match Env.get? e1 n with | some v => some v | none => Env.get? e2 n) := by
  induction e1 with
  | nil => simp [Env.get?]
  | cons kv r ih =>
    obtain ⟨k, v⟩ := kv
    simp only [List.cons_append, Env.get?]
    split
    · rfl
    · exact ih

/-- the head of the factory's argument list is handled independently of the tail -/
theorem mkSlots_cons_congr {α} (conv : GoVal → Option α) (g : GoVal) (A B : List GoVal)
    (h : mkSlots conv A = mkSlots conv B) : mkSlots conv (g :: A) = mkSlots conv (g :: B) := by
  cases g <;> simp only [mkSlots, h]

theorem mkSlots_cons_some {α} (conv : GoVal → Option α) (g : GoVal) (a : α) (A : List GoVal)
    (h : conv g = some a) : mkSlots conv (g :: A) = (mkSlots conv A).map (Slot.val a :: ·) := by
  cases g <;> simp only [mkSlots, h]

theorem mkSlots_cons_name {α} (conv : GoVal → Option α) (n : Name) (A : List GoVal)
    (h : conv (.str n) = none) : mkSlots conv (.str n :: A) = (mkSlots conv A).map (Slot.var n :: ·) := by
  simp only [mkSlots, h]

theorem mkSlots_cons_refused {α} (conv : GoVal → Option α) (g : GoVal) (A : List GoVal)
    (h : conv g = none) (hs : ∀ s, g ≠ .str s) : mkSlots conv (g :: A) = none := by
  cases g <;> first | exact absurd rfl (hs _) | simp only [mkSlots, h]

/-- a table whose values are closed for the factory `conv`: a string value is a literal the
factory converts (binary "0b…"), never a variable name -/
def ClosedFor {α} (conv : GoVal → Option α) (e : Env) (names : List Name) : Prop :=
  ∀ n ∈ names, ∀ s, e.get? n = some (.str s) → (conv (.str s)).isSome = true

theorem ClosedFor.tail {α} {conv : GoVal → Option α} {e : Env} {n : Name} {r : List Name}
    (h : ClosedFor conv e (n :: r)) : ClosedFor conv e r := fun m hm => h m (by simp [hm])

/-- **Array factories compose.** If the first fill is accepted with slots `ys`, then filling
`ys` with `e2` hands the factory a list it treats exactly like the one-step list. -/
theorem mkSlots_compose {α} (conv : GoVal → Option α) (canon : α → GoVal) (e1 e2 : Env)
    :
    ∀ (xs : List (Slot α)) (ys : List (Slot α)), ClosedFor conv e1 (slotVars xs) →
      (∀ a, Slot.val a ∈ xs → conv (canon a) = some a) →
      (∀ a, Slot.val a ∈ ys → conv (canon a) = some a) →
      (∀ n, Slot.var n ∈ xs → conv (.str n) = none) →
      mkSlots conv (fillArgs canon e1 xs) = some ys →
      mkSlots conv (fillArgs canon e2 ys) = mkSlots conv (fillArgs canon (e1 ++ e2) xs)
  | [], ys, _, _, _, _, h => by
    simp only [fillArgs, mkSlots, Option.some.injEq] at h
    subst h; rfl
  | .val a :: r, ys, hc, hx, hy, hn, h => by
    have ha := hx a (by simp)
    simp only [fillArgs] at h ⊢
    rw [mkSlots_cons_some conv _ a _ ha] at h
    cases hr : mkSlots conv (fillArgs canon e1 r) with
    | none => simp [hr] at h
    | some ys' =>
      simp only [hr, Option.map_some, Option.some.injEq] at h
      subst h
      simp only [fillArgs]
      exact mkSlots_cons_congr conv _ _ _
        (mkSlots_compose conv canon e1 e2 r ys' (by simpa [slotVars] using hc) (fun a h => hx a (by simp [h])) (fun a h => hy a (by simp [h]))
          (fun n h => hn n (by simp [h])) hr)
  | .var n :: r, ys, hc, hx, hy, hn, h => by
    have hnm := hn n (by simp)
    simp only [fillArgs, get_append] at h ⊢
    cases h1 : Env.get? e1 n with
    | none =>
      simp only [h1] at h ⊢
      rw [mkSlots_cons_name conv n _ hnm] at h
      cases hr : mkSlots conv (fillArgs canon e1 r) with
      | none => simp [hr] at h
      | some ys' =>
        simp only [hr, Option.map_some, Option.some.injEq] at h
        subst h
        simp only [fillArgs]
        exact mkSlots_cons_congr conv _ _ _
          (mkSlots_compose conv canon e1 e2 r ys' hc.tail (fun a h => hx a (by simp [h])) (fun a h => hy a (by simp [h]))
            (fun n h => hn n (by simp [h])) hr)
    | some v =>
      simp only [h1] at h ⊢
      cases hv : conv v with
      | none =>
        exfalso
        by_cases hs : ∃ s, v = .str s
        · obtain ⟨s, rfl⟩ := hs
          have := hc n (by simp [slotVars]) s h1
          simp [hv] at this
        · rw [mkSlots_cons_refused conv v _ hv (fun s hs' => hs ⟨s, hs'⟩)] at h
          cases h
      | some a =>
        rw [mkSlots_cons_some conv v a _ hv] at h ⊢
        cases hr : mkSlots conv (fillArgs canon e1 r) with
        | none => simp [hr] at h
        | some ys' =>
          simp only [hr, Option.map_some, Option.some.injEq] at h
          subst h
          have ha := hy a (by simp)
          simp only [fillArgs]
          rw [mkSlots_cons_some conv _ a _ ha]
          rw [mkSlots_compose conv canon e1 e2 r ys' hc.tail (fun a h => hx a (by simp [h])) (fun a h => hy a (by simp [h]))
            (fun n h => hn n (by simp [h])) hr]

theorem fillArgs_length {α} (canon : α → GoVal) (e : Env) (xs : List (Slot α)) :
    (fillArgs canon e xs).length = xs.length := by
  induction xs with
  | nil => rfl
  | cons x r ih => cases x <;> simp [fillArgs, ih]

theorem mkSlots_length {α} (conv : GoVal → Option α) : ∀ (A : List GoVal) (ys : List (Slot α)),
    mkSlots conv A = some ys → ys.length = A.length
  | [], ys, h => by simp only [mkSlots, Option.some.injEq] at h; subst h; rfl
  | g :: A, ys, h => by
    cases hr : mkSlots conv A with
    | none => cases g <;> simp only [mkSlots, hr] at h <;> (try split at h) <;> simp at h
    | some ys' =>
      have := mkSlots_length conv A ys' hr
      cases g <;> simp only [mkSlots, hr] at h <;> (try split at h) <;> simp at h <;> (try subst h) <;> simp [this]

/-- an unbound table changes nothing in the argument list -/
theorem fillArgs_unbound {α} (canon : α → GoVal) (e : Env) (xs : List (Slot α))
    (h : anyBound e xs = false) : fillArgs canon e xs = xs.map (Sml.argOf canon) := by
  induction xs with
  | nil => rfl
  | cons x r ih =>
    cases x with
    | val a =>
      have : anyBound e r = false := by simpa [anyBound, slotVars] using h
      simp [fillArgs, Sml.argOf, ih this]
    | var n =>
      simp only [anyBound, slotVars, List.any_cons, Bool.or_eq_false_iff] at h
      have hn : e.get? n = none := by cases hg : e.get? n <;> simp_all
      have : anyBound e r = false := by simpa [anyBound] using h.2
      simp [fillArgs, Sml.argOf, hn, ih this]

theorem anyBound_append {α} (e1 e2 : Env) (xs : List (Slot α)) :
    anyBound (e1 ++ e2) xs = (anyBound e1 xs || anyBound e2 xs) := by
  simp only [anyBound]
  induction slotVars xs with
  | nil => rfl
  | cons n r ih =>
    simp only [List.any_cons, ih]
    rw [get_append]
    cases h1 : Env.get? e1 n <;> cases h2 : Env.get? e2 n <;> simp [Bool.or_comm, Bool.or_left_comm]

theorem fillArgs_append_unbound {α} (canon : α → GoVal) (e1 e2 : Env) (xs : List (Slot α))
    (h : anyBound e1 xs = false) : fillArgs canon (e1 ++ e2) xs = fillArgs canon e2 xs := by
  induction xs with
  | nil => rfl
  | cons x r ih =>
    cases x with
    | val a =>
      have : anyBound e1 r = false := by simpa [anyBound, slotVars] using h
      simp [fillArgs, ih this]
    | var n =>
      simp only [anyBound, slotVars, List.any_cons, Bool.or_eq_false_iff] at h
      have hn : e1.get? n = none := by cases hg : e1.get? n <;> simp_all
      have : anyBound e1 r = false := by simpa [anyBound] using h.2
      simp [fillArgs, get_append, hn, ih this]

end Secs

namespace Secs
open Sml

/-! ### integer, unsigned and boolean arrays -/

theorem validWidth_opt_int (w : Nat) (h : validWidthInt w = true) : optWidth (intFmt? w) = w := by
  simp only [validWidthInt, Bool.or_eq_true, beq_iff_eq] at h
  rcases h with ((rfl | rfl) | rfl) | rfl <;> rfl

theorem validWidth_opt_uint (w : Nat) (h : validWidthInt w = true) : optWidth (uintFmt? w) = w := by
  simp only [validWidthInt, Bool.or_eq_true, beq_iff_eq] at h
  rcases h with ((rfl | rfl) | rfl) | rfl <;> rfl

theorem mkInt_congr (w : Nat) (A B : List GoVal) (hl : A.length = B.length)
    (h : mkSlots convInt A = mkSlots convInt B) : mkInt w A = mkInt w B := by
  simp only [mkInt, hl, h]

theorem mkUint_congr (w : Nat) (A B : List GoVal) (hl : A.length = B.length)
    (h : mkSlots convUint A = mkSlots convUint B) : mkUint w A = mkUint w B := by
  simp only [mkUint, hl, h]

theorem mkBoolean_congr (A B : List GoVal) (hl : A.length = B.length)
    (h : mkSlots convBool A = mkSlots convBool B) : mkBoolean A = mkBoolean B := by
  simp only [mkBoolean, hl, h]

/-- what an accepted integer factory call returns -/
theorem mkInt_some (w : Nat) (A : List GoVal) (t : Tmpl) (h : mkInt w A = some t) :
    ∃ ys, t = .int w ys ∧ mkSlots convInt A = some ys ∧ t.wf = true := by
  unfold mkInt at h
  dsimp only at h
  split at h
  · cases h
  · rename_i hlen
    split at h
    · cases h
    · rename_i ys hys
      split at h
      · rename_i hok
        cases h
        simp only [Bool.and_eq_true] at hok
        refine ⟨ys, rfl, hys, ?_⟩
        have hl := mkSlots_length convInt A ys hys
        rw [validWidth_opt_int w hok.1] at hlen
        simp only [Tmpl.wf, Bool.and_eq_true, decide_eq_true_eq]
        exact ⟨⟨hok.1, by rw [hl]; omega⟩, hok.2⟩
      · cases h

theorem mkUint_some (w : Nat) (A : List GoVal) (t : Tmpl) (h : mkUint w A = some t) :
    ∃ ys, t = .uint w ys ∧ mkSlots convUint A = some ys ∧ t.wf = true := by
  unfold mkUint at h
  dsimp only at h
  split at h
  · cases h
  · rename_i hlen
    split at h
    · cases h
    · rename_i ys hys
      split at h
      · rename_i hok
        cases h
        simp only [Bool.and_eq_true] at hok
        refine ⟨ys, rfl, hys, ?_⟩
        have hl := mkSlots_length convUint A ys hys
        rw [validWidth_opt_uint w hok.1] at hlen
        simp only [Tmpl.wf, Bool.and_eq_true, decide_eq_true_eq]
        exact ⟨⟨hok.1, by rw [hl]; omega⟩, hok.2⟩
      · cases h

theorem mkBoolean_some (A : List GoVal) (t : Tmpl) (h : mkBoolean A = some t) :
    ∃ ys, t = .boolean ys ∧ mkSlots convBool A = some ys ∧ t.wf = true := by
  unfold mkBoolean at h
  split at h
  · cases h
  · rename_i hlen
    split at h
    · cases h
    · rename_i ys hys
      split at h
      · rename_i hok
        cases h
        refine ⟨ys, rfl, hys, ?_⟩
        have hl := mkSlots_length convBool A ys hys
        simp only [Tmpl.wf, Bool.and_eq_true, decide_eq_true_eq]
        exact ⟨by rw [hl]; omega, hok⟩
      · cases h

/-- on a well-formed node, FillVariables *is* the factory on the substituted slots, whether or
not a variable is bound (an unbound fill rebuilds the node it already is) -/
theorem fillLeaf_int (w : Nat) (xs : List (Slot Int)) (e : Env) (hw : (Tmpl.int w xs).wf = true) :
    fillLeaf (.int w xs) e = mkInt w (fillArgs (.sint 64) e xs) := by
  simp only [fillLeaf]
  split
  · rfl
  · rename_i hb
    rw [fillArgs_unbound _ e xs (by simpa using hb), Sml.rebuild_int w xs hw]

theorem fillLeaf_uint (w : Nat) (xs : List (Slot Nat)) (e : Env) (hw : (Tmpl.uint w xs).wf = true) :
    fillLeaf (.uint w xs) e = mkUint w (fillArgs (.uint 64) e xs) := by
  simp only [fillLeaf]
  split
  · rfl
  · rename_i hb
    rw [fillArgs_unbound _ e xs (by simpa using hb), Sml.rebuild_uint w xs hw]

theorem fillLeaf_boolean (xs : List (Slot Bool)) (e : Env) (hw : (Tmpl.boolean xs).wf = true) :
    fillLeaf (.boolean xs) e = mkBoolean (fillArgs .bool e xs) := by
  simp only [fillLeaf]
  split
  · rfl
  · rename_i hb
    rw [fillArgs_unbound _ e xs (by simpa using hb), Sml.rebuild_bool xs hw]

theorem compose_int (w : Nat) (xs : List (Slot Int)) (e1 e2 : Env) (t1 : Tmpl)
    (hw : (Tmpl.int w xs).wf = true) (hc : ClosedFor convInt e1 (slotVars xs))
    (h : fillLeaf (.int w xs) e1 = some t1) :
    t1.wf = true ∧ t1.isList = false ∧ fillLeaf t1 e2 = fillLeaf (.int w xs) (e1 ++ e2) := by
  rw [fillLeaf_int w xs e1 hw] at h
  obtain ⟨ys, rfl, hys, hwf⟩ := mkInt_some w _ t1 h
  refine ⟨hwf, rfl, ?_⟩
  rw [fillLeaf_int w ys e2 hwf, fillLeaf_int w xs _ hw]
  apply mkInt_congr
  · rw [fillArgs_length, fillArgs_length, mkSlots_length _ _ _ hys, fillArgs_length]
  · exact mkSlots_compose convInt (.sint 64) e1 e2 xs ys hc (fun _ _ => rfl) (fun _ _ => rfl) (fun _ _ => rfl) hys

theorem compose_uint (w : Nat) (xs : List (Slot Nat)) (e1 e2 : Env) (t1 : Tmpl)
    (hw : (Tmpl.uint w xs).wf = true) (hc : ClosedFor convUint e1 (slotVars xs))
    (h : fillLeaf (.uint w xs) e1 = some t1) :
    t1.wf = true ∧ t1.isList = false ∧ fillLeaf t1 e2 = fillLeaf (.uint w xs) (e1 ++ e2) := by
  rw [fillLeaf_uint w xs e1 hw] at h
  obtain ⟨ys, rfl, hys, hwf⟩ := mkUint_some w _ t1 h
  refine ⟨hwf, rfl, ?_⟩
  rw [fillLeaf_uint w ys e2 hwf, fillLeaf_uint w xs _ hw]
  apply mkUint_congr
  · rw [fillArgs_length, fillArgs_length, mkSlots_length _ _ _ hys, fillArgs_length]
  · exact mkSlots_compose convUint (.uint 64) e1 e2 xs ys hc (fun _ _ => rfl) (fun _ _ => rfl) (fun _ _ => rfl) hys

theorem compose_boolean (xs : List (Slot Bool)) (e1 e2 : Env) (t1 : Tmpl)
    (hw : (Tmpl.boolean xs).wf = true) (hc : ClosedFor convBool e1 (slotVars xs))
    (h : fillLeaf (.boolean xs) e1 = some t1) :
    t1.wf = true ∧ t1.isList = false ∧ fillLeaf t1 e2 = fillLeaf (.boolean xs) (e1 ++ e2) := by
  rw [fillLeaf_boolean xs e1 hw] at h
  obtain ⟨ys, rfl, hys, hwf⟩ := mkBoolean_some _ t1 h
  refine ⟨hwf, rfl, ?_⟩
  rw [fillLeaf_boolean ys e2 hwf, fillLeaf_boolean xs _ hw]
  apply mkBoolean_congr
  · rw [fillArgs_length, fillArgs_length, mkSlots_length _ _ _ hys, fillArgs_length]
  · exact mkSlots_compose convBool .bool e1 e2 xs ys hc (fun _ _ => rfl) (fun _ _ => rfl) (fun _ _ => rfl) hys

end Secs

namespace Secs
open Sml

/-! ### binary arrays: the factory converts through an intermediate `Option Int` -/

def liftB : Slot Nat → Slot (Option Int)
  | .val v => .val (some (v : Int))
  | .var n => .var n

def canonB : Option Int → GoVal
  | some v => .sint 0 v
  | none => .other

theorem fillArgs_liftB (e : Env) (xs : List (Slot Nat)) :
    fillArgs (fun (v : Nat) => GoVal.sint 0 v) e xs = fillArgs canonB e (xs.map liftB) := by
  induction xs with
  | nil => rfl
  | cons x r ih => cases x <;> simp [fillArgs, liftB, canonB, ih]

theorem slotVars_map {α β} (f : Slot α → Slot β) (hf : ∀ n, f (.var n) = .var n)
    (hv : ∀ a, ∃ b, f (.val a) = .val b) (l : List (Slot α)) : slotVars (l.map f) = slotVars l := by
  induction l with
  | nil => rfl
  | cons x r ih =>
    cases x with
    | val a => obtain ⟨b, hb⟩ := hv a; simp [slotVars, hb, ih]
    | var n => simp [slotVars, hf, ih]

theorem mkBinary_congr (A B : List GoVal) (hl : A.length = B.length)
    (h : mkSlots convBinary A = mkSlots convBinary B) : mkBinary A = mkBinary B := by
  simp only [mkBinary, hl, h]

theorem mkBinary_some (A : List GoVal) (t : Tmpl) (h : mkBinary A = some t) :
    ∃ ys zs, t = .binary zs ∧ mkSlots convBinary A = some ys ∧ zs.map liftB = ys ∧ t.wf = true := by
  unfold mkBinary at h
  split at h
  · cases h
  · rename_i hlen
    split at h
    · cases h
    · rename_i ys hys
      split at h
      · cases h
      · rename_i href
        dsimp only at h
        split at h
        · rename_i hok
          cases h
          refine ⟨ys, _, rfl, hys, ?_, ?_⟩
          · -- lifting the stored bytes gives the intermediate slots back
            have hmem := (slotsOk_mem _ _ hok).1
            simp only [List.map_map]
            have : ∀ s ∈ ys, (liftB ∘ (fun s => match s with | Slot.val (v : Int) => Slot.val v.toNat | .var n => .var n) ∘ slotUnwrap 0) s = s := by
              intro s hs
              cases s with
              | var n => rfl
              | val o =>
                cases o with
                | none =>
                  exfalso
                  apply href
                  simp only [List.any_eq_true]
                  exact ⟨_, hs, rfl⟩
                | some v =>
                  have hv := hmem v (by simp only [List.mem_map]; exact ⟨_, hs, rfl⟩)
                  simp only [Bool.and_eq_true, decide_eq_true_eq] at hv
                  simp only [Function.comp, slotUnwrap, liftB]
                  congr 2
                  omega
            calc List.map _ ys = List.map id ys := List.map_congr_left this
              _ = ys := List.map_id ys
          · have hl := mkSlots_length convBinary A ys hys
            simp only [Tmpl.wf, Bool.and_eq_true, decide_eq_true_eq, List.length_map]
            refine ⟨by omega, ?_⟩
            -- ranges and names carry over to the stored bytes
            simp only [slotsOk, Bool.and_eq_true, List.all_eq_true] at hok ⊢
            constructor
            · intro s hs
              simp only [List.mem_map] at hs
              obtain ⟨s1, ⟨s0, hs0, rfl⟩, rfl⟩ := hs
              have := hok.1 _ (List.mem_map.mpr ⟨s0, hs0, rfl⟩)
              cases s0 with
              | var n => simpa [slotUnwrap] using this
              | val o =>
                cases o with
                | none => simp [slotUnwrap]
                | some v =>
                  simp only [slotUnwrap, Bool.and_eq_true, decide_eq_true_eq] at this ⊢
                  omega
            · refine (congrArg nodupNames (slotVars_map _ ?_ ?_ _)).trans hok.2
              · intro n; rfl
              · intro a; exact ⟨_, rfl⟩
        · cases h

theorem fillLeaf_binary (xs : List (Slot Nat)) (e : Env) (hw : (Tmpl.binary xs).wf = true) :
    fillLeaf (.binary xs) e = mkBinary (fillArgs (fun (v : Nat) => GoVal.sint 0 v) e xs) := by
  simp only [fillLeaf]
  split
  · rfl
  · rename_i hb
    rw [fillArgs_unbound _ e xs (by simpa using hb), Sml.rebuild_binary xs hw]

theorem compose_binary (xs : List (Slot Nat)) (e1 e2 : Env) (t1 : Tmpl)
    (hw : (Tmpl.binary xs).wf = true) (hc : ClosedFor convBinary e1 (slotVars xs))
    (h : fillLeaf (.binary xs) e1 = some t1) :
    t1.wf = true ∧ t1.isList = false ∧ fillLeaf t1 e2 = fillLeaf (.binary xs) (e1 ++ e2) := by
  rw [fillLeaf_binary xs e1 hw] at h
  obtain ⟨ys, zs, rfl, hys, hz, hwf⟩ := mkBinary_some _ t1 h
  refine ⟨hwf, rfl, ?_⟩
  rw [fillLeaf_binary zs e2 hwf, fillLeaf_binary xs _ hw]
  have hlen : zs.length = xs.length := by
    have := mkSlots_length _ _ _ hys
    rw [fillArgs_length] at this
    rw [← this, ← hz, List.length_map]
  apply mkBinary_congr
  · rw [fillArgs_length, fillArgs_length, hlen]
  · rw [fillArgs_liftB, fillArgs_liftB, hz]
    rw [fillArgs_liftB] at hys
    have hnames : ∀ n, Slot.var n ∈ xs.map liftB → convBinary (.str n) = none := by
      intro n hn
      simp only [List.mem_map] at hn
      obtain ⟨s, hs, hsl⟩ := hn
      cases s with
      | val v => simp [liftB] at hsl
      | var m =>
        simp only [liftB, Slot.var.injEq] at hsl
        subst hsl
        simp only [Tmpl.wf, Bool.and_eq_true] at hw
        have := (slotsOk_mem _ _ hw.2).2 m hs
        simp [convBinary, valid_not_0b m this]
    have hvals : ∀ (l : List (Slot Nat)) a, Slot.val a ∈ l.map liftB → convBinary (canonB a) = some a := by
      intro l a ha
      simp only [List.mem_map] at ha
      obtain ⟨s, _, hsl⟩ := ha
      cases s with
      | val v => simp only [liftB, Slot.val.injEq] at hsl; subst hsl; rfl
      | var m => simp [liftB] at hsl
    exact mkSlots_compose convBinary canonB e1 e2 (xs.map liftB) ys (by rw [slotVars_map liftB (fun _ => rfl) (fun _ => ⟨_, rfl⟩)]; exact hc) (hvals xs) (hz ▸ hvals zs) hnames hys

end Secs

namespace Secs
open Sml

/-! ### whole trees -/

-- no float node anywhere (the float factory's re-reading of a stored 4-byte value is not covered)
mutual
def noFloatT : Tmpl → Bool
  | .list xs => noFloatS xs
  | .float _ _ => false
  | _ => true
def noFloatS : Slots → Bool
  | .nil => true
  | .item t r => noFloatT t && noFloatS r
  | .var _ r => noFloatS r
end

-- the table's values are closed where this template uses them: an array slot gets no variable
-- name, a list slot gets a well-formed item without variables (not the empty placeholder item)
mutual
def closedOnT (e : Env) : Tmpl → Prop
  | .list xs => closedOnS e xs
  | .binary xs => ClosedFor convBinary e (slotVars xs)
  | .boolean xs => ClosedFor convBool e (slotVars xs)
  | .int _ xs => ClosedFor convInt e (slotVars xs)
  | .uint _ xs => ClosedFor convUint e (slotVars xs)
  | _ => True
def closedOnS (e : Env) : Slots → Prop
  | .nil => True
  | .item t r => closedOnT e t ∧ closedOnS e r
  | .var n r =>
    (∀ v, e.get? n = some v → (∀ s, v ≠ .str s) ∧ (∀ t', v = .item t' → t'.wf = true ∧ t'.vars = [] ∧ t' ≠ .empty)) ∧ closedOnS e r
end

/-- lookups in the non-ellipsis part of a table -/
theorem get_filter_notEll (e : Env) (n : Name) :
    Env.get? (e.filter (fun kv => !isEllKey kv)) n = if isEllipsis n then none else e.get? n := by
  induction e with
  | nil => simp [Env.get?]
  | cons kv r ih =>
    obtain ⟨k, v⟩ := kv
    have hkk : isEllKey (k, v) = isEllipsis k := rfl
    simp only [List.filter_cons, hkk]
    by_cases hk : isEllipsis k = true
    · simp only [hk, Bool.not_true, Bool.false_eq_true, if_false, Env.get?]
      rw [ih]
      by_cases hkn : (k == n) = true
      · have : k = n := by simpa using hkn
        subst this
        simp [hk]
      · simp [hkn]
    · have hk' : isEllipsis k = false := by simpa using hk
      simp only [hk', Bool.not_false, if_true, Env.get?]
      rw [ih]
      by_cases hkn : (k == n) = true
      · have : k = n := by simpa using hkn
        subst this
        simp [hk']
      · simp [hkn]

theorem closedFor_filter {α} (conv : GoVal → Option α) (e : Env) (names : List Name)
    (h : ClosedFor conv e names) : ClosedFor conv (e.filter (fun kv => !isEllKey kv)) names := by
  intro n hn s hs
  rw [get_filter_notEll] at hs
  split at hs
  · cases hs
  · exact h n hn s hs

mutual
theorem closedOnT_filter (e : Env) : ∀ t : Tmpl, closedOnT e t → closedOnT (e.filter (fun kv => !isEllKey kv)) t
  | .list xs, h => by simp only [closedOnT] at h ⊢; exact closedOnS_filter e xs h
  | .binary xs, h => by simp only [closedOnT] at h ⊢; exact closedFor_filter _ e _ h
  | .boolean xs, h => by simp only [closedOnT] at h ⊢; exact closedFor_filter _ e _ h
  | .int _ xs, h => by simp only [closedOnT] at h ⊢; exact closedFor_filter _ e _ h
  | .uint _ xs, h => by simp only [closedOnT] at h ⊢; exact closedFor_filter _ e _ h
  | .ascii _, _ => by simp only [closedOnT]
  | .asciiVar _ _ _, _ => by simp only [closedOnT]
  | .float _ _, _ => by simp only [closedOnT]
  | .empty, _ => by simp only [closedOnT]
theorem closedOnS_filter (e : Env) : ∀ xs : Slots, closedOnS e xs → closedOnS (e.filter (fun kv => !isEllKey kv)) xs
  | .nil, _ => by simp only [closedOnS]
  | .item t r, h => by
    simp only [closedOnS] at h ⊢
    exact ⟨closedOnT_filter e t h.1, closedOnS_filter e r h.2⟩
  | .var n r, h => by
    simp only [closedOnS] at h ⊢
    refine ⟨?_, closedOnS_filter e r h.2⟩
    intro v hv
    rw [get_filter_notEll] at hv
    split at hv
    · cases hv
    · exact h.1 v hv
end

theorem fill_leaf (fuel : Nat) (t : Tmpl) (e : Env) (h : t.isList = false) : fill (fuel + 1) t e = fillLeaf t e := by
  cases t <;> first | rfl | simp [Tmpl.isList] at h

theorem noEllT_leaf (t : Tmpl) (h : t.isList = false) : noEllT t = true := by
  cases t <;> first | rfl | simp [Tmpl.isList] at h

mutual
theorem noEllT_of_novars : ∀ t : Tmpl, t.vars = [] → noEllT t = true
  | .list xs, h => by simp only [noEllT]; exact noEllS_of_novars xs (by simpa [Tmpl.vars] using h)
  | .ascii _, _ => rfl
  | .asciiVar _ _ _, _ => rfl
  | .binary _, _ => rfl
  | .boolean _, _ => rfl
  | .int _ _, _ => rfl
  | .uint _ _, _ => rfl
  | .float _ _, _ => rfl
  | .empty, _ => rfl
theorem noEllS_of_novars : ∀ xs : Slots, xs.vars = [] → noEllS xs = true
  | .nil, _ => rfl
  | .var n r, h => by simp [Slots.vars] at h
  | .item t r, h => by
    have ht : t.vars = [] ∧ r.vars = [] := by
      cases t <;> simp_all [Slots.vars, Tmpl.vars]
    simp [noEllS, noEllT_of_novars t ht.1, noEllS_of_novars r ht.2]
end

theorem mkListSlots_cons (g : GoVal) (a : List GoVal) (ys : Slots) (h : mkListSlots (g :: a) = some ys) :
    (∃ t ys', g = .item t ∧ ys = .item t ys' ∧ mkListSlots a = some ys') ∨
    (∃ n ys', g = .str n ∧ ys = .var n ys' ∧ mkListSlots a = some ys') := by
  cases g <;> simp only [mkListSlots] at h <;> first | cases h | skip
  · right
    cases hr : mkListSlots a with
    | none => simp [hr] at h
    | some ys' => simp only [hr, Option.map_some, Option.some.injEq] at h; exact ⟨_, ys', rfl, h.symm, rfl⟩
  · left
    cases hr : mkListSlots a with
    | none => simp [hr] at h
    | some ys' => simp only [hr, Option.map_some, Option.some.injEq] at h; exact ⟨_, ys', rfl, h.symm, rfl⟩

end Secs

namespace Secs
open Sml

theorem compose_asciiVar (n : Name) (mn mx : Int) (e1 e2 : Env) (t1 : Tmpl)
    (h : fillLeaf (.asciiVar n mn mx) e1 = some t1) :
    t1.isList = false ∧ fillLeaf t1 e2 = fillLeaf (.asciiVar n mn mx) (e1 ++ e2) := by
  simp only [fillLeaf] at h
  cases h1 : Env.get? e1 n with
  | none =>
    simp only [h1, Option.some.injEq] at h
    subst h
    refine ⟨rfl, ?_⟩
    simp only [fillLeaf]
    rw [get_append, h1]
  | some v =>
    simp only [h1] at h
    have hget : Env.get? (e1 ++ e2) n = some v := by rw [get_append, h1]
    cases v with
    | str s =>
      simp only at h
      have hR : fillLeaf (.asciiVar n mn mx) (e1 ++ e2) = some t1 := by
        simp only [fillLeaf, hget]; exact h
      rw [hR]
      split at h
      · cases h
      · split at h
        · cases h
        · unfold mkAscii at h
          split at h
          · cases h
          · split at h
            · cases h; exact ⟨rfl, rfl⟩
            · cases h
    | _ => simp at h

theorem mkList_some (a : List GoVal) (t : Tmpl) (h : mkList a = some t) :
    ∃ ys, t = .list ys ∧ mkListSlots a = some ys := by
  unfold mkList at h
  split at h
  · cases h
  · split at h
    · cases h
    · rename_i ys hys
      split at h
      · cases h; exact ⟨ys, rfl, hys⟩
      · cases h

mutual
/-- **Filling in two steps is filling once with the union** (every nesting depth): if the first
fill is accepted, the second fill of its result is the one-step fill of the template with
`e1 ++ e2` — the same item, or the same refusal. -/
theorem compose_T : ∀ (t : Tmpl) (fuel : Nat) (e1 e2 : Env) (t1 : Tmpl),
    t.wf = true → noEllT t = true → noFloatT t = true → closedOnT e1 t →
    t.depth ≤ fuel → t1.depth ≤ fuel → fill (fuel + 1) t e1 = some t1 →
    noEllT t1 = true ∧ fill (fuel + 1) t1 e2 = fill (fuel + 1) t (e1 ++ e2)
  | .list xs, fuel, e1, e2, t1, hw, hn, hf, hc, hd, hd1, h => by
    have hx : noEllS xs = true := by simpa [noEllT] using hn
    cases fuel with
    | zero => simp [Tmpl.depth] at hd
    | succ k =>
      rw [fill_list_noEll (k + 1) xs e1 hx] at h
      cases ha : fillSlots (fun t => fill (k + 1) t (e1.filter (fun kv => !isEllKey kv))) (e1.filter (fun kv => !isEllKey kv)) xs with
      | none => simp [ha] at h
      | some a1 =>
        simp only [ha, Option.bind_some] at h
        obtain ⟨ys, rfl, hys⟩ := mkList_some a1 t1 h
        simp only [Tmpl.wf, Bool.and_eq_true] at hw
        have := compose_S xs k (e1.filter (fun kv => !isEllKey kv)) (e2.filter (fun kv => !isEllKey kv)) a1 ys
          hw.1.1.2 hx (by simpa [noFloatT] using hf) (closedOnS_filter e1 xs (by simpa [closedOnT] using hc))
          (by simp [Tmpl.depth] at hd; omega) (by simp [Tmpl.depth] at hd1; omega) ha hys
        refine ⟨by simpa [noEllT] using this.1, ?_⟩
        rw [fill_list_noEll (k + 1) ys e2 this.1, fill_list_noEll (k + 1) xs (e1 ++ e2) hx, this.2, List.filter_append]
  | .ascii s, fuel, e1, e2, t1, _, _, _, _, _, _, h => by
    simp only [fill, fillLeaf, Option.some.injEq] at h
    subst h
    exact ⟨rfl, rfl⟩
  | .empty, fuel, e1, e2, t1, _, _, _, _, _, _, h => by
    simp only [fill, fillLeaf, Option.some.injEq] at h
    subst h
    exact ⟨rfl, rfl⟩
  | .float _ _, _, _, _, _, _, _, hf, _, _, _, _ => by simp [noFloatT] at hf
  | .asciiVar n mn mx, fuel, e1, e2, t1, _, _, _, _, _, _, h => by
    rw [fill_leaf _ _ _ rfl] at h
    obtain ⟨hl, heq⟩ := compose_asciiVar n mn mx e1 e2 t1 h
    exact ⟨noEllT_leaf t1 hl, by rw [fill_leaf _ _ _ hl, fill_leaf _ _ _ rfl]; exact heq⟩
  | .binary xs, fuel, e1, e2, t1, hw, _, _, hc, _, _, h => by
    rw [fill_leaf _ _ _ rfl] at h
    obtain ⟨_, hl, heq⟩ := compose_binary xs e1 e2 t1 hw (by simpa [closedOnT] using hc) h
    exact ⟨noEllT_leaf t1 hl, by rw [fill_leaf _ _ _ hl, fill_leaf _ _ _ rfl]; exact heq⟩
  | .boolean xs, fuel, e1, e2, t1, hw, _, _, hc, _, _, h => by
    rw [fill_leaf _ _ _ rfl] at h
    obtain ⟨_, hl, heq⟩ := compose_boolean xs e1 e2 t1 hw (by simpa [closedOnT] using hc) h
    exact ⟨noEllT_leaf t1 hl, by rw [fill_leaf _ _ _ hl, fill_leaf _ _ _ rfl]; exact heq⟩
  | .int w xs, fuel, e1, e2, t1, hw, _, _, hc, _, _, h => by
    rw [fill_leaf _ _ _ rfl] at h
    obtain ⟨_, hl, heq⟩ := compose_int w xs e1 e2 t1 hw (by simpa [closedOnT] using hc) h
    exact ⟨noEllT_leaf t1 hl, by rw [fill_leaf _ _ _ hl, fill_leaf _ _ _ rfl]; exact heq⟩
  | .uint w xs, fuel, e1, e2, t1, hw, _, _, hc, _, _, h => by
    rw [fill_leaf _ _ _ rfl] at h
    obtain ⟨_, hl, heq⟩ := compose_uint w xs e1 e2 t1 hw (by simpa [closedOnT] using hc) h
    exact ⟨noEllT_leaf t1 hl, by rw [fill_leaf _ _ _ hl, fill_leaf _ _ _ rfl]; exact heq⟩
theorem compose_S : ∀ (xs : Slots) (fuel : Nat) (o1 o2 : Env) (a1 : List GoVal) (ys : Slots),
    xs.wfAll = true → noEllS xs = true → noFloatS xs = true → closedOnS o1 xs →
    xs.depth ≤ fuel → ys.depth ≤ fuel →
    fillSlots (fun t => fill (fuel + 1) t o1) o1 xs = some a1 → mkListSlots a1 = some ys →
    noEllS ys = true ∧
      fillSlots (fun t => fill (fuel + 1) t o2) o2 ys = fillSlots (fun t => fill (fuel + 1) t (o1 ++ o2)) (o1 ++ o2) xs
  | .nil, fuel, o1, o2, a1, ys, _, _, _, _, _, _, h, hm => by
    simp only [fillSlots, Option.some.injEq] at h
    subst h
    simp only [mkListSlots, Option.some.injEq] at hm
    subst hm
    exact ⟨rfl, rfl⟩
  | .var n r, fuel, o1, o2, a1, ys, hw, hn, hf, hc, hd, hd1, h, hm => by
    simp only [noEllS, Bool.and_eq_true, Bool.not_eq_true'] at hn
    simp only [closedOnS] at hc
    simp only [fillSlots] at h
    cases hr : fillSlots (fun t => fill (fuel + 1) t o1) o1 r with
    | none => simp [hr] at h
    | some a1' =>
      simp only [hr, Option.map_some, Option.some.injEq] at h
      subst h
      cases h1 : Env.get? o1 n with
      | none =>
        simp only [h1] at hm
        rcases mkListSlots_cons _ _ _ hm with ⟨t, ys', hg, _, _⟩ | ⟨m, ys', hg, rfl, hm'⟩
        · cases hg
        · cases hg
          have ih := compose_S r fuel o1 o2 a1' ys' (by simpa [Slots.wfAll] using hw) hn.2 (by simpa [noFloatS] using hf) hc.2
            (by simpa [Slots.depth] using hd) (by simpa [Slots.depth] using hd1) hr hm'
          refine ⟨by simp [noEllS, hn.1, ih.1], ?_⟩
          simp only [fillSlots, ih.2]
          rw [get_append, h1]
      | some v =>
        simp only [h1] at hm
        obtain ⟨hns, hit⟩ := hc.1 v h1
        rcases mkListSlots_cons _ _ _ hm with ⟨t', ys', hg, rfl, hm'⟩ | ⟨m, ys', hg, _, _⟩
        · subst hg
          obtain ⟨hwt, hvt, _⟩ := hit t' rfl
          have ih := compose_S r fuel o1 o2 a1' ys' (by simpa [Slots.wfAll] using hw) hn.2 (by simpa [noFloatS] using hf) hc.2
            (by simpa [Slots.depth] using hd) (by simp only [Slots.depth] at hd1; omega) hr hm'
          have hnt := noEllT_of_novars t' hvt
          have hid : fill (fuel + 1) t' o2 = some t' :=
            fill_identity t' fuel o2 (by simp only [Slots.depth] at hd1; omega) hwt hnt (by simp [hvt])
          refine ⟨by simp [noEllS, hnt, ih.1], ?_⟩
          simp only [fillSlots, hid, ih.2]
          rw [get_append, h1]
          cases fillSlots (fun t => fill (fuel + 1) t (o1 ++ o2)) (o1 ++ o2) r <;> rfl
        · exact absurd hg (hns m)
  | .item t r, fuel, o1, o2, a1, ys, hw, hn, hf, hc, hd, hd1, h, hm => by
    simp only [noEllS, Bool.and_eq_true] at hn
    simp only [noFloatS, Bool.and_eq_true] at hf
    simp only [Slots.wfAll, Bool.and_eq_true] at hw
    simp only [closedOnS] at hc
    simp only [Slots.depth] at hd
    simp only [fillSlots] at h
    cases ht : fill (fuel + 1) t o1 with
    | none => simp [ht] at h
    | some t1 =>
      cases hr : fillSlots (fun t => fill (fuel + 1) t o1) o1 r with
      | none => simp [ht, hr] at h
      | some a1' =>
        simp only [ht, hr, Option.some.injEq] at h
        subst h
        rcases mkListSlots_cons _ _ _ hm with ⟨t', ys', hg, rfl, hm'⟩ | ⟨m, ys', hg, _, _⟩
        · cases hg
          simp only [Slots.depth] at hd1
          have ihT := compose_T t fuel o1 o2 t1 hw.1 hn.1 hf.1 hc.1 (by omega) (by omega) ht
          have ihS := compose_S r fuel o1 o2 a1' ys' hw.2 hn.2 hf.2 hc.2 (by omega) (by omega) hr hm'
          refine ⟨by simp [noEllS, ihT.1, ihS.1], ?_⟩
          simp only [fillSlots, ihT.2, ihS.2]
        · cases hg
end

end Secs

namespace Secs

/-! ### the fuel is irrelevant once it covers the depth (ellipsis-free trees) -/
mutual
theorem fill_fuel_T : ∀ (t : Tmpl) (f1 f2 : Nat) (e : Env), noEllT t = true → t.depth ≤ f1 → t.depth ≤ f2 →
    fill (f1 + 1) t e = fill (f2 + 1) t e
  | .list xs, f1, f2, e, hn, h1, h2 => by
    have hx : noEllS xs = true := by simpa [noEllT] using hn
    cases f1 with
    | zero => simp [Tmpl.depth] at h1
    | succ k1 =>
      cases f2 with
      | zero => simp [Tmpl.depth] at h2
      | succ k2 =>
        rw [fill_list_noEll _ xs e hx, fill_list_noEll _ xs e hx,
          fill_fuel_S xs k1 k2 _ hx (by simp [Tmpl.depth] at h1; omega) (by simp [Tmpl.depth] at h2; omega)]
  | .ascii _, _, _, _, _, _, _ => rfl
  | .asciiVar _ _ _, _, _, _, _, _, _ => rfl
  | .binary _, _, _, _, _, _, _ => rfl
  | .boolean _, _, _, _, _, _, _ => rfl
  | .int _ _, _, _, _, _, _, _ => rfl
  | .uint _ _, _, _, _, _, _, _ => rfl
  | .float _ _, _, _, _, _, _, _ => rfl
  | .empty, _, _, _, _, _, _ => rfl
theorem fill_fuel_S : ∀ (xs : Slots) (f1 f2 : Nat) (o : Env), noEllS xs = true → xs.depth ≤ f1 → xs.depth ≤ f2 →
    fillSlots (fun t => fill (f1 + 1) t o) o xs = fillSlots (fun t => fill (f2 + 1) t o) o xs
  | .nil, _, _, _, _, _, _ => rfl
  | .var n r, f1, f2, o, hn, h1, h2 => by
    simp only [noEllS, Bool.and_eq_true] at hn
    simp only [fillSlots, fill_fuel_S r f1 f2 o hn.2 (by simpa [Slots.depth] using h1) (by simpa [Slots.depth] using h2)]
  | .item t r, f1, f2, o, hn, h1, h2 => by
    simp only [noEllS, Bool.and_eq_true] at hn
    simp only [Slots.depth] at h1 h2
    simp only [fillSlots, fill_fuel_T t f1 f2 o hn.1 (by omega) (by omega), fill_fuel_S r f1 f2 o hn.2 (by omega) (by omega)]
end

theorem fill_eq_Tmpl_fill (t : Tmpl) (f : Nat) (e : Env) (hn : noEllT t = true) (h : t.depth ≤ f) :
    Secs.fill (f + 1) t e = t.fill e := fill_fuel_T t f t.depth e hn h (Nat.le_refl _)

/-- **C09, composition** on `ItemNode.FillVariables` itself. -/
theorem Tmpl.fill_compose (t t1 : Tmpl) (e1 e2 : Env) (hw : t.wf = true) (hn : noEllT t = true) (hf : noFloatT t = true)
    (hc : closedOnT e1 t) (h : t.fill e1 = some t1) : t1.fill e2 = t.fill (e1 ++ e2) := by
  have h' : Secs.fill (max t.depth t1.depth + 1) t e1 = some t1 := by
    rw [fill_eq_Tmpl_fill t _ e1 hn (Nat.le_max_left _ _)]; exact h
  have := compose_T t (max t.depth t1.depth) e1 e2 t1 hw hn hf hc (Nat.le_max_left _ _) (Nat.le_max_right _ _) h'
  rw [← fill_eq_Tmpl_fill t1 _ e2 this.1 (Nat.le_max_right _ _), ← fill_eq_Tmpl_fill t _ (e1 ++ e2) hn (Nat.le_max_left _ _)]
  exact this.2

end Secs

/-! ## Unmentioned variables remain, in their original order -/
namespace Secs
open Sml

def unboundIn (e : Env) (v : Name) : Bool := (e.get? v).isNone

/-- the factory keeps exactly the unbound names, in order (closed values) -/
theorem mkSlots_vars {α} (conv : GoVal → Option α) (canon : α → GoVal) (e : Env) :
    ∀ (xs ys : List (Slot α)), ClosedFor conv e (slotVars xs) →
      (∀ a, Slot.val a ∈ xs → conv (canon a) = some a) →
      (∀ n, Slot.var n ∈ xs → conv (.str n) = none) →
      mkSlots conv (fillArgs canon e xs) = some ys →
      slotVars ys = (slotVars xs).filter (unboundIn e)
  | [], ys, _, _, _, h => by
    simp only [fillArgs, mkSlots, Option.some.injEq] at h
    subst h; rfl
  | .val a :: r, ys, hc, hx, hn, h => by
    simp only [fillArgs] at h
    rw [mkSlots_cons_some conv _ a _ (hx a (by simp))] at h
    cases hr : mkSlots conv (fillArgs canon e r) with
    | none => simp [hr] at h
    | some ys' =>
      simp only [hr, Option.map_some, Option.some.injEq] at h
      subst h
      simpa [slotVars] using mkSlots_vars conv canon e r ys' (by simpa [slotVars] using hc)
        (fun a h => hx a (by simp [h])) (fun n h => hn n (by simp [h])) hr
  | .var n :: r, ys, hc, hx, hn, h => by
    simp only [fillArgs] at h
    cases h1 : Env.get? e n with
    | none =>
      simp only [h1] at h
      rw [mkSlots_cons_name conv n _ (hn n (by simp))] at h
      cases hr : mkSlots conv (fillArgs canon e r) with
      | none => simp [hr] at h
      | some ys' =>
        simp only [hr, Option.map_some, Option.some.injEq] at h
        subst h
        have ih := mkSlots_vars conv canon e r ys' hc.tail (fun a h => hx a (by simp [h])) (fun n h => hn n (by simp [h])) hr
        simp [slotVars, List.filter_cons, unboundIn, h1, ih]
    | some v =>
      simp only [h1] at h
      cases hv : conv v with
      | none =>
        exfalso
        by_cases hs : ∃ s, v = .str s
        · obtain ⟨s, rfl⟩ := hs
          have := hc n (by simp [slotVars]) s h1
          simp [hv] at this
        · rw [mkSlots_cons_refused conv v _ hv (fun s hs' => hs ⟨s, hs'⟩)] at h
          cases h
      | some a =>
        rw [mkSlots_cons_some conv v a _ hv] at h
        cases hr : mkSlots conv (fillArgs canon e r) with
        | none => simp [hr] at h
        | some ys' =>
          simp only [hr, Option.map_some, Option.some.injEq] at h
          subst h
          have ih := mkSlots_vars conv canon e r ys' hc.tail (fun a h => hx a (by simp [h])) (fun n h => hn n (by simp [h])) hr
          simp [slotVars, List.filter_cons, unboundIn, h1, ih]

theorem vars_int (w : Nat) (xs : List (Slot Int)) (e : Env) (t1 : Tmpl) (hw : (Tmpl.int w xs).wf = true)
    (hc : ClosedFor convInt e (slotVars xs)) (h : fillLeaf (.int w xs) e = some t1) :
    t1.vars = (slotVars xs).filter (unboundIn e) := by
  rw [fillLeaf_int w xs e hw] at h
  obtain ⟨ys, rfl, hys, _⟩ := mkInt_some w _ t1 h
  exact mkSlots_vars convInt (.sint 64) e xs ys hc (fun _ _ => rfl) (fun _ _ => rfl) hys

theorem vars_uint (w : Nat) (xs : List (Slot Nat)) (e : Env) (t1 : Tmpl) (hw : (Tmpl.uint w xs).wf = true)
    (hc : ClosedFor convUint e (slotVars xs)) (h : fillLeaf (.uint w xs) e = some t1) :
    t1.vars = (slotVars xs).filter (unboundIn e) := by
  rw [fillLeaf_uint w xs e hw] at h
  obtain ⟨ys, rfl, hys, _⟩ := mkUint_some w _ t1 h
  exact mkSlots_vars convUint (.uint 64) e xs ys hc (fun _ _ => rfl) (fun _ _ => rfl) hys

theorem vars_boolean (xs : List (Slot Bool)) (e : Env) (t1 : Tmpl) (hw : (Tmpl.boolean xs).wf = true)
    (hc : ClosedFor convBool e (slotVars xs)) (h : fillLeaf (.boolean xs) e = some t1) :
    t1.vars = (slotVars xs).filter (unboundIn e) := by
  rw [fillLeaf_boolean xs e hw] at h
  obtain ⟨ys, rfl, hys, _⟩ := mkBoolean_some _ t1 h
  exact mkSlots_vars convBool .bool e xs ys hc (fun _ _ => rfl) (fun _ _ => rfl) hys

theorem vars_binary (xs : List (Slot Nat)) (e : Env) (t1 : Tmpl) (hw : (Tmpl.binary xs).wf = true)
    (hc : ClosedFor convBinary e (slotVars xs)) (h : fillLeaf (.binary xs) e = some t1) :
    t1.vars = (slotVars xs).filter (unboundIn e) := by
  rw [fillLeaf_binary xs e hw] at h
  obtain ⟨ys, zs, rfl, hys, hz, _⟩ := mkBinary_some _ t1 h
  rw [fillArgs_liftB] at hys
  have hnames : ∀ n, Slot.var n ∈ xs.map liftB → convBinary (.str n) = none := by
    intro n hn
    simp only [List.mem_map] at hn
    obtain ⟨s, hs, hsl⟩ := hn
    cases s with
    | val v => simp [liftB] at hsl
    | var m =>
      simp only [liftB, Slot.var.injEq] at hsl
      subst hsl
      simp only [Tmpl.wf, Bool.and_eq_true] at hw
      have := (slotsOk_mem _ _ hw.2).2 m hs
      simp [convBinary, valid_not_0b m this]
  have hvals : ∀ a, Slot.val a ∈ xs.map liftB → convBinary (canonB a) = some a := by
    intro a ha
    simp only [List.mem_map] at ha
    obtain ⟨s, _, hsl⟩ := ha
    cases s with
    | val v => simp only [liftB, Slot.val.injEq] at hsl; subst hsl; rfl
    | var m => simp [liftB] at hsl
  have := mkSlots_vars convBinary canonB e (xs.map liftB) ys
    (by rw [slotVars_map liftB (fun _ => rfl) (fun _ => ⟨_, rfl⟩)]; exact hc) hvals hnames hys
  rw [slotVars_map liftB (fun _ => rfl) (fun _ => ⟨_, rfl⟩)] at this
  rw [← hz, slotVars_map liftB (fun _ => rfl) (fun _ => ⟨_, rfl⟩)] at this
  simpa [Tmpl.vars] using this

end Secs

namespace Secs
open Sml

theorem valid_not_ellipsis (n : Name) (h : isValidVarName n = true) : isEllipsis n = false := by
  cases n with
  | nil => rfl
  | cons b r =>
    simp only [isValidVarName, Bool.and_eq_true] at h
    by_cases hb : b = 46
    · subst hb; exact absurd h.1 (by decide)
    · cases r with
      | nil => simp [isEllipsis]
      | cons c r' =>
        cases r' with
        | nil => simp [isEllipsis]
        | cons d r'' =>
          unfold isEllipsis
          split
          · rename_i heq; injection heq with h1 _; exact absurd h1 hb
          · rfl

theorem mem_slotVars {α} (v : Name) : ∀ xs : List (Slot α), v ∈ slotVars xs ↔ Slot.var v ∈ xs
  | [] => by simp [slotVars]
  | .val a :: r => by simp [slotVars, mem_slotVars v r]
  | .var n :: r => by
    simp only [slotVars, List.mem_cons, mem_slotVars v r, Slot.var.injEq]

theorem slots_vars_item (t : Tmpl) (r : Slots) (h : t ≠ .empty) : (Slots.item t r).vars = t.vars ++ r.vars := by
  cases t <;> first | rfl | exact absurd rfl h

mutual
/-- no variable of a well-formed ellipsis-free template has an ellipsis name -/
theorem vars_not_ellipsis_T : ∀ t : Tmpl, t.wf = true → noEllT t = true → ∀ v ∈ t.vars, isEllipsis v = false
  | .list xs, hw, hn, v, hv => by
    simp only [Tmpl.wf, Bool.and_eq_true] at hw
    exact vars_not_ellipsis_S xs hw.1.1.2 (by simpa [noEllT] using hn) v (by simpa [Tmpl.vars] using hv)
  | .ascii _, _, _, v, hv => by simp [Tmpl.vars] at hv
  | .empty, _, _, v, hv => by simp [Tmpl.vars] at hv
  | .asciiVar n _ _, hw, _, v, hv => by
    simp only [Tmpl.vars, List.mem_cons, List.not_mem_nil, or_false] at hv
    subst hv
    simp only [Tmpl.wf, Bool.and_eq_true] at hw
    exact valid_not_ellipsis _ hw.1.1.1
  | .binary xs, hw, _, v, hv => by
    simp only [Tmpl.wf, Bool.and_eq_true] at hw
    have hm : Slot.var v ∈ xs := (mem_slotVars v xs).mp (by simpa [Tmpl.vars] using hv)
    exact valid_not_ellipsis v ((slotsOk_mem _ _ hw.2).2 v hm)
  | .boolean xs, hw, _, v, hv => by
    simp only [Tmpl.wf, Bool.and_eq_true] at hw
    have hm : Slot.var v ∈ xs := (mem_slotVars v xs).mp (by simpa [Tmpl.vars] using hv)
    exact valid_not_ellipsis v ((slotsOk_mem _ _ hw.2).2 v hm)
  | .int _ xs, hw, _, v, hv => by
    simp only [Tmpl.wf, Bool.and_eq_true] at hw
    have hm : Slot.var v ∈ xs := (mem_slotVars v xs).mp (by simpa [Tmpl.vars] using hv)
    exact valid_not_ellipsis v ((slotsOk_mem _ _ hw.2).2 v hm)
  | .uint _ xs, hw, _, v, hv => by
    simp only [Tmpl.wf, Bool.and_eq_true] at hw
    have hm : Slot.var v ∈ xs := (mem_slotVars v xs).mp (by simpa [Tmpl.vars] using hv)
    exact valid_not_ellipsis v ((slotsOk_mem _ _ hw.2).2 v hm)
  | .float _ xs, hw, _, v, hv => by
    simp only [Tmpl.wf, Bool.and_eq_true] at hw
    have hm : Slot.var v ∈ xs := (mem_slotVars v xs).mp (by simpa [Tmpl.vars] using hv)
    exact valid_not_ellipsis v ((slotsOk_mem _ _ hw.2).2 v hm)
theorem vars_not_ellipsis_S : ∀ xs : Slots, xs.wfAll = true → noEllS xs = true → ∀ v ∈ xs.vars, isEllipsis v = false
  | .nil, _, _, v, hv => by simp [Slots.vars] at hv
  | .var n r, hw, hn, v, hv => by
    simp only [noEllS, Bool.and_eq_true, Bool.not_eq_true'] at hn
    simp only [Slots.vars, List.mem_cons] at hv
    rcases hv with rfl | hv
    · exact hn.1
    · exact vars_not_ellipsis_S r (by simpa [Slots.wfAll] using hw) hn.2 v hv
  | .item t r, hw, hn, v, hv => by
    simp only [noEllS, Bool.and_eq_true] at hn
    simp only [Slots.wfAll, Bool.and_eq_true] at hw
    by_cases ht : t = .empty
    · subst ht
      simp only [Slots.vars, List.mem_cons] at hv
      rcases hv with rfl | hv
      · rfl
      · exact vars_not_ellipsis_S r hw.2 hn.2 v hv
    · rw [slots_vars_item t r ht, List.mem_append] at hv
      rcases hv with hv | hv
      · exact vars_not_ellipsis_T t hw.1 hn.1 v hv
      · exact vars_not_ellipsis_S r hw.2 hn.2 v hv
end

end Secs

namespace Secs
open Sml

theorem vars_asciiVar (n : Name) (mn mx : Int) (e : Env) (t1 : Tmpl) (h : fillLeaf (.asciiVar n mn mx) e = some t1) :
    t1.vars = [n].filter (unboundIn e) ∧ t1 ≠ .empty := by
  simp only [fillLeaf] at h
  cases h1 : Env.get? e n with
  | none =>
    simp only [h1, Option.some.injEq] at h
    subst h
    simp [Tmpl.vars, unboundIn, h1]
  | some v =>
    simp only [h1] at h
    cases v with
    | str s =>
      simp only at h
      split at h
      · cases h
      · split at h
        · cases h
        · unfold mkAscii at h
          split at h
          · cases h
          · split at h
            · cases h; simp [Tmpl.vars, unboundIn, h1]
            · cases h
    | _ => simp at h

theorem filter_unbound_congr (e o : Env) (l : List Name) (h : ∀ v ∈ l, Env.get? o v = Env.get? e v) :
    l.filter (unboundIn o) = l.filter (unboundIn e) := by
  apply List.filter_congr
  intro v hv
  simp [unboundIn, h v hv]

mutual
/-- **Unmentioned variables remain in their original order**: the variables of the filled item
are the template's variables without the bound ones, in the same order, at every depth. -/
theorem vars_T : ∀ (t : Tmpl) (fuel : Nat) (e : Env) (t1 : Tmpl),
    t.wf = true → noEllT t = true → noFloatT t = true → closedOnT e t → Env.get? e [] = none →
    t.depth ≤ fuel → fill (fuel + 1) t e = some t1 →
    t1.vars = t.vars.filter (unboundIn e) ∧ (t ≠ .empty → t1 ≠ .empty)
  | .list xs, fuel, e, t1, hw, hn, hf, hc, he, hd, h => by
    have hx : noEllS xs = true := by simpa [noEllT] using hn
    cases fuel with
    | zero => simp [Tmpl.depth] at hd
    | succ k =>
      rw [fill_list_noEll (k + 1) xs e hx] at h
      cases ha : fillSlots (fun t => fill (k + 1) t (e.filter (fun kv => !isEllKey kv))) (e.filter (fun kv => !isEllKey kv)) xs with
      | none => simp [ha] at h
      | some a1 =>
        simp only [ha, Option.bind_some] at h
        obtain ⟨ys, rfl, hys⟩ := mkList_some a1 t1 h
        have hwf := hw
        simp only [Tmpl.wf, Bool.and_eq_true] at hwf
        have := vars_S xs k (e.filter (fun kv => !isEllKey kv)) a1 ys hwf.1.1.2 hx (by simpa [noFloatT] using hf)
          (closedOnS_filter e xs (by simpa [closedOnT] using hc)) (get_filter_none e _ [] he)
          (by simp [Tmpl.depth] at hd; omega) ha hys
        refine ⟨?_, fun _ => by simp⟩
        simp only [Tmpl.vars, this]
        apply filter_unbound_congr
        intro v hv
        rw [get_filter_notEll, vars_not_ellipsis_S xs hwf.1.1.2 hx v hv]
        simp
  | .ascii s, fuel, e, t1, _, _, _, _, _, _, h => by
    simp only [fill, fillLeaf, Option.some.injEq] at h
    subst h
    exact ⟨by simp [Tmpl.vars], fun _ => by simp⟩
  | .empty, fuel, e, t1, _, _, _, _, _, _, h => by
    simp only [fill, fillLeaf, Option.some.injEq] at h
    subst h
    exact ⟨by simp [Tmpl.vars], fun h => absurd rfl h⟩
  | .float _ _, _, _, _, _, _, hf, _, _, _, _ => by simp [noFloatT] at hf
  | .asciiVar n mn mx, fuel, e, t1, _, _, _, _, _, _, h => by
    rw [fill_leaf _ _ _ rfl] at h
    obtain ⟨a, b⟩ := vars_asciiVar n mn mx e t1 h
    exact ⟨by simpa [Tmpl.vars] using a, fun _ => b⟩
  | .binary xs, fuel, e, t1, hw, _, _, hc, _, _, h => by
    rw [fill_leaf _ _ _ rfl] at h
    have hne : t1 ≠ .empty := by
      rw [fillLeaf_binary xs e hw] at h
      obtain ⟨_, _, rfl, _⟩ := mkBinary_some _ t1 h
      simp
    exact ⟨by simpa [Tmpl.vars] using vars_binary xs e t1 hw (by simpa [closedOnT] using hc) h, fun _ => hne⟩
  | .boolean xs, fuel, e, t1, hw, _, _, hc, _, _, h => by
    rw [fill_leaf _ _ _ rfl] at h
    have hne : t1 ≠ .empty := by
      rw [fillLeaf_boolean xs e hw] at h
      obtain ⟨_, rfl, _⟩ := mkBoolean_some _ t1 h
      simp
    exact ⟨by simpa [Tmpl.vars] using vars_boolean xs e t1 hw (by simpa [closedOnT] using hc) h, fun _ => hne⟩
  | .int w xs, fuel, e, t1, hw, _, _, hc, _, _, h => by
    rw [fill_leaf _ _ _ rfl] at h
    have hne : t1 ≠ .empty := by
      rw [fillLeaf_int w xs e hw] at h
      obtain ⟨_, rfl, _⟩ := mkInt_some w _ t1 h
      simp
    exact ⟨by simpa [Tmpl.vars] using vars_int w xs e t1 hw (by simpa [closedOnT] using hc) h, fun _ => hne⟩
  | .uint w xs, fuel, e, t1, hw, _, _, hc, _, _, h => by
    rw [fill_leaf _ _ _ rfl] at h
    have hne : t1 ≠ .empty := by
      rw [fillLeaf_uint w xs e hw] at h
      obtain ⟨_, rfl, _⟩ := mkUint_some w _ t1 h
      simp
    exact ⟨by simpa [Tmpl.vars] using vars_uint w xs e t1 hw (by simpa [closedOnT] using hc) h, fun _ => hne⟩
theorem vars_S : ∀ (xs : Slots) (fuel : Nat) (o : Env) (a1 : List GoVal) (ys : Slots),
    xs.wfAll = true → noEllS xs = true → noFloatS xs = true → closedOnS o xs → Env.get? o [] = none →
    xs.depth ≤ fuel →
    fillSlots (fun t => fill (fuel + 1) t o) o xs = some a1 → mkListSlots a1 = some ys →
    ys.vars = xs.vars.filter (unboundIn o)
  | .nil, fuel, o, a1, ys, _, _, _, _, _, _, h, hm => by
    simp only [fillSlots, Option.some.injEq] at h
    subst h
    simp only [mkListSlots, Option.some.injEq] at hm
    subst hm
    rfl
  | .var n r, fuel, o, a1, ys, hw, hn, hf, hc, he, hd, h, hm => by
    simp only [noEllS, Bool.and_eq_true, Bool.not_eq_true'] at hn
    simp only [closedOnS] at hc
    simp only [fillSlots] at h
    cases hr : fillSlots (fun t => fill (fuel + 1) t o) o r with
    | none => simp [hr] at h
    | some a1' =>
      simp only [hr, Option.map_some, Option.some.injEq] at h
      subst h
      cases h1 : Env.get? o n with
      | none =>
        simp only [h1] at hm
        rcases mkListSlots_cons _ _ _ hm with ⟨t, ys', hg, _, _⟩ | ⟨m, ys', hg, rfl, hm'⟩
        · cases hg
        · cases hg
          have ih := vars_S r fuel o a1' ys' (by simpa [Slots.wfAll] using hw) hn.2 (by simpa [noFloatS] using hf) hc.2 he
            (by simpa [Slots.depth] using hd) hr hm'
          simp [Slots.vars, List.filter_cons, unboundIn, h1, ih]
      | some v =>
        simp only [h1] at hm
        obtain ⟨hns, hit⟩ := hc.1 v h1
        rcases mkListSlots_cons _ _ _ hm with ⟨t', ys', hg, rfl, hm'⟩ | ⟨m, ys', hg, _, _⟩
        · subst hg
          obtain ⟨_, hvt, hne⟩ := hit t' rfl
          have ih := vars_S r fuel o a1' ys' (by simpa [Slots.wfAll] using hw) hn.2 (by simpa [noFloatS] using hf) hc.2 he
            (by simpa [Slots.depth] using hd) hr hm'
          rw [slots_vars_item t' ys' hne, hvt]
          simp [Slots.vars, List.filter_cons, unboundIn, h1, ih]
        · exact absurd hg (hns m)
  | .item t r, fuel, o, a1, ys, hw, hn, hf, hc, he, hd, h, hm => by
    simp only [noEllS, Bool.and_eq_true] at hn
    simp only [noFloatS, Bool.and_eq_true] at hf
    simp only [Slots.wfAll, Bool.and_eq_true] at hw
    simp only [closedOnS] at hc
    simp only [Slots.depth] at hd
    simp only [fillSlots] at h
    cases ht : fill (fuel + 1) t o with
    | none => simp [ht] at h
    | some t1 =>
      cases hr : fillSlots (fun t => fill (fuel + 1) t o) o r with
      | none => simp [ht, hr] at h
      | some a1' =>
        simp only [ht, hr, Option.some.injEq] at h
        subst h
        rcases mkListSlots_cons _ _ _ hm with ⟨t', ys', hg, rfl, hm'⟩ | ⟨m, ys', hg, _, _⟩
        · cases hg
          obtain ⟨ihT, ihne⟩ := vars_T t fuel o t1 hw.1 hn.1 hf.1 hc.1 he (by omega) ht
          have ihS := vars_S r fuel o a1' ys' hw.2 hn.2 hf.2 hc.2 he (by omega) hr hm'
          by_cases hte : t = .empty
          · subst hte
            simp only [fill, fillLeaf, Option.some.injEq] at ht
            subst ht
            simp [Slots.vars, List.filter_cons, unboundIn, he, ihS]
          · rw [slots_vars_item t1 ys' (ihne hte), slots_vars_item t r hte, List.filter_append, ihT, ihS]
        · cases hg
end

/-- on `ItemNode.FillVariables` -/
theorem Tmpl.fill_vars (t t1 : Tmpl) (e : Env) (hw : t.wf = true) (hn : noEllT t = true) (hf : noFloatT t = true)
    (hc : closedOnT e t) (he : Env.get? e [] = none) (h : t.fill e = some t1) :
    t1.vars = t.vars.filter (unboundIn e) :=
  (vars_T t t.depth e t1 hw hn hf hc he (Nat.le_refl _) h).1

end Secs

/-! ## A refused first step is a refused one-step fill -/
namespace Secs
open Sml

/-- slot lists that agree wherever the first one holds a value -/
def Refines {α} : List (Slot α) → List (Slot α) → Prop
  | [], [] => True
  | .val a :: r1, s :: r2 => s = .val a ∧ Refines r1 r2
  | .var _ :: r1, _ :: r2 => Refines r1 r2
  | _, _ => False

theorem mkSlots_cons_tail_none {α} (conv : GoVal → Option α) (g : GoVal) (A : List GoVal)
    (h : mkSlots conv A = none) : mkSlots conv (g :: A) = none := by
  cases g <;> simp only [mkSlots, h] <;> (try split) <;> rfl

/-- when the tail is accepted, a refusal is the head's own and does not depend on the tail -/
theorem mkSlots_cons_head_none {α} (conv : GoVal → Option α) (g : GoVal) (A B : List GoVal) (ys : List (Slot α))
    (hA : mkSlots conv A = some ys) (h : mkSlots conv (g :: A) = none) : mkSlots conv (g :: B) = none := by
  cases g <;> simp only [mkSlots, hA] at h ⊢ <;> (split at h <;> simp_all)

theorem mkSlots_none_mono {α} (conv : GoVal → Option α) (canon : α → GoVal) (e1 e2 : Env) :
    ∀ (xs : List (Slot α)), mkSlots conv (fillArgs canon e1 xs) = none →
      mkSlots conv (fillArgs canon (e1 ++ e2) xs) = none
  | [], h => by simp [fillArgs, mkSlots] at h
  | .val a :: r, h => by
    simp only [fillArgs] at h ⊢
    cases hr : mkSlots conv (fillArgs canon e1 r) with
    | none => exact mkSlots_cons_tail_none conv _ _ (mkSlots_none_mono conv canon e1 e2 r hr)
    | some ys' => exact mkSlots_cons_head_none conv _ _ _ ys' hr h
  | .var n :: r, h => by
    simp only [fillArgs] at h ⊢
    rw [get_append]
    cases hr : mkSlots conv (fillArgs canon e1 r) with
    | none => exact mkSlots_cons_tail_none conv _ _ (mkSlots_none_mono conv canon e1 e2 r hr)
    | some ys' =>
      cases h1 : Env.get? e1 n with
      | none =>
        -- an unbound variable name is never refused
        simp only [h1] at h
        simp only [mkSlots, hr] at h
        split at h <;> simp at h
      | some v =>
        simp only [h1] at h ⊢
        exact mkSlots_cons_head_none conv _ _ _ ys' hr h

end Secs

namespace Secs
open Sml

theorem mkSlots_cons_tail {α} (conv : GoVal → Option α) (g : GoVal) (A : List GoVal) (y2 : List (Slot α))
    (sC : Slot α) (rC : List (Slot α)) (hA : mkSlots conv A = some y2)
    (h : mkSlots conv (g :: A) = some (sC :: rC)) : rC = y2 := by
  cases g <;> simp only [mkSlots, hA] at h <;> (try split at h) <;> simp_all

theorem mkSlots_refines {α} (conv : GoVal → Option α) (canon : α → GoVal) (e1 e2 : Env) :
    ∀ (xs ys1 ysC : List (Slot α)), ClosedFor conv e1 (slotVars xs) →
      (∀ a, Slot.val a ∈ xs → conv (canon a) = some a) →
      (∀ n, Slot.var n ∈ xs → conv (.str n) = none) →
      mkSlots conv (fillArgs canon e1 xs) = some ys1 →
      mkSlots conv (fillArgs canon (e1 ++ e2) xs) = some ysC → Refines ys1 ysC
  | [], ys1, ysC, _, _, _, h1, h2 => by
    simp only [fillArgs, mkSlots, Option.some.injEq] at h1 h2
    subst h1; subst h2; trivial
  | .val a :: r, ys1, ysC, hc, hx, hn, h1, h2 => by
    simp only [fillArgs] at h1 h2
    rw [mkSlots_cons_some conv _ a _ (hx a (by simp))] at h1 h2
    cases hr1 : mkSlots conv (fillArgs canon e1 r) with
    | none => simp [hr1] at h1
    | some y1 =>
      cases hr2 : mkSlots conv (fillArgs canon (e1 ++ e2) r) with
      | none => simp [hr2] at h2
      | some y2 =>
        simp only [hr1, hr2, Option.map_some, Option.some.injEq] at h1 h2
        subst h1; subst h2
        exact ⟨rfl, mkSlots_refines conv canon e1 e2 r y1 y2 (by simpa [slotVars] using hc)
          (fun a h => hx a (by simp [h])) (fun n h => hn n (by simp [h])) hr1 hr2⟩
  | .var n :: r, ys1, ysC, hc, hx, hn, h1, h2 => by
    simp only [fillArgs] at h1 h2
    rw [get_append] at h2
    cases hr1 : mkSlots conv (fillArgs canon e1 r) with
    | none => rw [mkSlots_cons_tail_none conv _ _ hr1] at h1; cases h1
    | some y1 =>
      cases hr2 : mkSlots conv (fillArgs canon (e1 ++ e2) r) with
      | none => rw [mkSlots_cons_tail_none conv _ _ hr2] at h2; cases h2
      | some y2 =>
        have ih := mkSlots_refines conv canon e1 e2 r y1 y2 hc.tail
          (fun a h => hx a (by simp [h])) (fun n h => hn n (by simp [h])) hr1 hr2
        cases hg : Env.get? e1 n with
        | none =>
          simp only [hg] at h1 h2
          rw [mkSlots_cons_name conv n _ (hn n (by simp)), hr1] at h1
          simp only [Option.map_some, Option.some.injEq] at h1
          subst h1
          -- whatever the combined table puts here, the first list holds a variable
          cases ysC with
          | nil =>
            exfalso
            have := mkSlots_length conv _ _ h2
            simp at this
          | cons sC rC =>
            have hl : rC = y2 := mkSlots_cons_tail conv _ _ y2 sC rC hr2 h2
            subst hl
            exact ih
        | some v =>
          simp only [hg] at h1 h2
          cases hv : conv v with
          | none =>
            exfalso
            by_cases hs : ∃ s, v = .str s
            · obtain ⟨s, rfl⟩ := hs
              have := hc n (by simp [slotVars]) s hg
              simp [hv] at this
            · rw [mkSlots_cons_refused conv v _ hv (fun s hs' => hs ⟨s, hs'⟩)] at h1
              cases h1
          | some a =>
            rw [mkSlots_cons_some conv v a _ hv, hr1] at h1
            rw [mkSlots_cons_some conv v a _ hv, hr2] at h2
            simp only [Option.map_some, Option.some.injEq] at h1 h2
            subst h1; subst h2
            exact ⟨rfl, ih⟩

/-- a failing range check of an accepted first step fails in the one-step list as well -/
theorem slotsOk_refines {α} (p : α → Bool) : ∀ (ys1 ysC : List (Slot α)), Refines ys1 ysC →
    (∀ n, Slot.var n ∈ ys1 → isValidVarName n = true) →
    ys1.all (fun s => match s with | .val a => p a | .var n => isValidVarName n) = false →
    ysC.all (fun s => match s with | .val a => p a | .var n => isValidVarName n) = false
  | [], [], _, _, h => by simp at h
  | [], _ :: _, hr, _, _ => by simp [Refines] at hr
  | .val a :: r1, [], hr, _, _ => by simp [Refines] at hr
  | .var _ :: r1, [], hr, _, _ => by simp [Refines] at hr
  | .val a :: r1, s :: r2, hr, hv, h => by
    obtain ⟨rfl, hr'⟩ := hr
    simp only [List.all_cons, Bool.and_eq_false_iff] at h ⊢
    rcases h with h | h
    · exact Or.inl h
    · exact Or.inr (slotsOk_refines p r1 r2 hr' (fun n hn => hv n (by simp [hn])) h)
  | .var n :: r1, s :: r2, hr, hv, h => by
    simp only [List.all_cons, Bool.and_eq_false_iff] at h ⊢
    rcases h with h | h
    · rw [hv n (by simp)] at h; cases h
    · exact Or.inr (slotsOk_refines p r1 r2 hr (fun n hn => hv n (by simp [hn])) h)

theorem nodupNames_filter (p : Name → Bool) : ∀ l : List Name, nodupNames l = true → nodupNames (l.filter p) = true
  | [], _ => rfl
  | n :: r, h => by
    simp only [nodupNames, Bool.and_eq_true, Bool.not_eq_true'] at h
    have ih := nodupNames_filter p r h.2
    simp only [List.filter_cons]
    split
    · simp only [nodupNames, Bool.and_eq_true, Bool.not_eq_true', ih, and_true]
      cases hc : (r.filter p).contains n with
      | false => rfl
      | true =>
        have : n ∈ r.filter p := by simpa using hc
        have : n ∈ r := (List.mem_filter.mp this).1
        have : r.contains n = true := by simpa using this
        rw [h.1] at this; cases this
    · exact ih

end Secs

namespace Secs
open Sml

theorem slotsOk_false_transfer {α} (p : α → Bool) (xs ys1 ysC : List (Slot α)) (e1 : Env)
    (hx : slotsOk p xs = true) (hv : slotVars ys1 = (slotVars xs).filter (unboundIn e1))
    (hr : Refines ys1 ysC) (h : slotsOk p ys1 = false) : slotsOk p ysC = false := by
  simp only [slotsOk, Bool.and_eq_true] at hx
  have hnd : nodupNames (slotVars ys1) = true := by rw [hv]; exact nodupNames_filter _ _ hx.2
  have hvalid : ∀ n, Slot.var n ∈ ys1 → isValidVarName n = true := by
    intro n hn
    have h1 : n ∈ slotVars ys1 := (mem_slotVars n ys1).mpr hn
    rw [hv] at h1
    have h2 := (mem_slotVars n xs).mp (List.mem_filter.mp h1).1
    have := hx.1
    simp only [List.all_eq_true] at this
    exact this _ h2
  simp only [slotsOk, hnd, Bool.and_true] at h
  simp only [slotsOk, Bool.and_eq_false_iff]
  exact Or.inl (slotsOk_refines p ys1 ysC hr hvalid h)

theorem refuse_int (w : Nat) (xs : List (Slot Int)) (e1 e2 : Env) (hw : (Tmpl.int w xs).wf = true)
    (hc : ClosedFor convInt e1 (slotVars xs)) (h : fillLeaf (.int w xs) e1 = none) :
    fillLeaf (.int w xs) (e1 ++ e2) = none := by
  rw [fillLeaf_int w xs _ hw] at h ⊢
  have hwf := hw
  simp only [Tmpl.wf, Bool.and_eq_true, decide_eq_true_eq] at hwf
  obtain ⟨⟨hwv, hmax⟩, hok⟩ := hwf
  unfold mkInt at h ⊢
  simp only [fillArgs_length, validWidth_opt_int w hwv] at h ⊢
  have hl : ¬ xs.length * w > maxByteSize := by omega
  simp only [hl, if_false] at h ⊢
  cases h1 : mkSlots convInt (fillArgs (.sint 64) e1 xs) with
  | none => simp [mkSlots_none_mono convInt (.sint 64) e1 e2 xs h1]
  | some ys1 =>
    simp only [h1, hwv, Bool.true_and] at h
    have hbad : slotsOk (intInRange w) ys1 = false := by
      cases hs : slotsOk (intInRange w) ys1 with
      | false => rfl
      | true => simp [hs] at h
    cases h2 : mkSlots convInt (fillArgs (.sint 64) (e1 ++ e2) xs) with
    | none => rfl
    | some ysC =>
      have hr := mkSlots_refines convInt (.sint 64) e1 e2 xs ys1 ysC hc (fun _ _ => rfl) (fun _ _ => rfl) h1 h2
      have hv := mkSlots_vars convInt (.sint 64) e1 xs ys1 hc (fun _ _ => rfl) (fun _ _ => rfl) h1
      simp [slotsOk_false_transfer (intInRange w) xs ys1 ysC e1 hok hv hr hbad]

theorem refuse_uint (w : Nat) (xs : List (Slot Nat)) (e1 e2 : Env) (hw : (Tmpl.uint w xs).wf = true)
    (hc : ClosedFor convUint e1 (slotVars xs)) (h : fillLeaf (.uint w xs) e1 = none) :
    fillLeaf (.uint w xs) (e1 ++ e2) = none := by
  rw [fillLeaf_uint w xs _ hw] at h ⊢
  have hwf := hw
  simp only [Tmpl.wf, Bool.and_eq_true, decide_eq_true_eq] at hwf
  obtain ⟨⟨hwv, hmax⟩, hok⟩ := hwf
  unfold mkUint at h ⊢
  simp only [fillArgs_length, validWidth_opt_uint w hwv] at h ⊢
  have hl : ¬ xs.length * w > maxByteSize := by omega
  simp only [hl, if_false] at h ⊢
  cases h1 : mkSlots convUint (fillArgs (.uint 64) e1 xs) with
  | none => simp [mkSlots_none_mono convUint (.uint 64) e1 e2 xs h1]
  | some ys1 =>
    simp only [h1, hwv, Bool.true_and] at h
    have hbad : slotsOk (uintInRange w) ys1 = false := by
      cases hs : slotsOk (uintInRange w) ys1 with
      | false => rfl
      | true => simp [hs] at h
    cases h2 : mkSlots convUint (fillArgs (.uint 64) (e1 ++ e2) xs) with
    | none => rfl
    | some ysC =>
      have hr := mkSlots_refines convUint (.uint 64) e1 e2 xs ys1 ysC hc (fun _ _ => rfl) (fun _ _ => rfl) h1 h2
      have hv := mkSlots_vars convUint (.uint 64) e1 xs ys1 hc (fun _ _ => rfl) (fun _ _ => rfl) h1
      simp [slotsOk_false_transfer (uintInRange w) xs ys1 ysC e1 hok hv hr hbad]

theorem refuse_boolean (xs : List (Slot Bool)) (e1 e2 : Env) (hw : (Tmpl.boolean xs).wf = true)
    (hc : ClosedFor convBool e1 (slotVars xs)) (h : fillLeaf (.boolean xs) e1 = none) :
    fillLeaf (.boolean xs) (e1 ++ e2) = none := by
  rw [fillLeaf_boolean xs _ hw] at h ⊢
  have hwf := hw
  simp only [Tmpl.wf, Bool.and_eq_true, decide_eq_true_eq] at hwf
  obtain ⟨hmax, hok⟩ := hwf
  unfold mkBoolean at h ⊢
  simp only [fillArgs_length] at h ⊢
  have hl : ¬ xs.length > maxByteSize := by omega
  simp only [hl, if_false] at h ⊢
  cases h1 : mkSlots convBool (fillArgs .bool e1 xs) with
  | none => simp [mkSlots_none_mono convBool .bool e1 e2 xs h1]
  | some ys1 =>
    simp only [h1] at h
    have hbad : slotsOk (fun _ => true) ys1 = false := by
      cases hs : slotsOk (fun (_ : Bool) => true) ys1 with
      | false => rfl
      | true => simp [hs] at h
    cases h2 : mkSlots convBool (fillArgs .bool (e1 ++ e2) xs) with
    | none => rfl
    | some ysC =>
      have hr := mkSlots_refines convBool .bool e1 e2 xs ys1 ysC hc (fun _ _ => rfl) (fun _ _ => rfl) h1 h2
      have hv := mkSlots_vars convBool .bool e1 xs ys1 hc (fun _ _ => rfl) (fun _ _ => rfl) h1
      simp [slotsOk_false_transfer (fun _ => true) xs ys1 ysC e1 hok hv hr hbad]

end Secs

namespace Secs
open Sml

theorem refines_map {α β} (f : Slot α → Slot β) (hf : ∀ n, f (.var n) = .var n) (hv : ∀ a, ∃ b, f (.val a) = .val b) :
    ∀ (l1 l2 : List (Slot α)), Refines l1 l2 → Refines (l1.map f) (l2.map f)
  | [], [], _ => trivial
  | [], _ :: _, h => by simp [Refines] at h
  | .val a :: r1, [], h => by simp [Refines] at h
  | .var _ :: r1, [], h => by simp [Refines] at h
  | .val a :: r1, s :: r2, h => by
    obtain ⟨rfl, h'⟩ := h
    obtain ⟨b, hb⟩ := hv a
    simp only [List.map_cons, hb]
    exact ⟨rfl, refines_map f hf hv r1 r2 h'⟩
  | .var n :: r1, s :: r2, h => by
    simp only [List.map_cons, hf]
    exact refines_map f hf hv r1 r2 h

theorem refines_refused {β} : ∀ (l1 l2 : List (Slot (Option β))), Refines l1 l2 →
    l1.any slotRefused = true → l2.any slotRefused = true
  | [], _, _, h => by simp at h
  | .val a :: r1, [], h, _ => by simp [Refines] at h
  | .var _ :: r1, [], h, _ => by simp [Refines] at h
  | .val a :: r1, s :: r2, h, ha => by
    obtain ⟨rfl, h'⟩ := h
    simp only [List.any_cons, Bool.or_eq_true] at ha ⊢
    rcases ha with ha | ha
    · exact Or.inl ha
    · exact Or.inr (refines_refused r1 r2 h' ha)
  | .var n :: r1, s :: r2, h, ha => by
    simp only [List.any_cons, Bool.or_eq_true] at ha ⊢
    rcases ha with ha | ha
    · simp [slotRefused] at ha
    · exact Or.inr (refines_refused r1 r2 h ha)

def toIntSlot : Slot Nat → Slot Int
  | .val v => .val (v : Int)
  | .var n => .var n

theorem refuse_binary (xs : List (Slot Nat)) (e1 e2 : Env) (hw : (Tmpl.binary xs).wf = true)
    (hc : ClosedFor convBinary e1 (slotVars xs)) (h : fillLeaf (.binary xs) e1 = none) :
    fillLeaf (.binary xs) (e1 ++ e2) = none := by
  rw [fillLeaf_binary xs _ hw] at h ⊢
  have hwf := hw
  simp only [Tmpl.wf, Bool.and_eq_true, decide_eq_true_eq] at hwf
  obtain ⟨hmax, hok⟩ := hwf
  unfold mkBinary at h ⊢
  simp only [fillArgs_length] at h ⊢
  have hl : ¬ xs.length > maxByteSize := by omega
  simp only [hl, if_false] at h ⊢
  rw [fillArgs_liftB] at h ⊢
  have hnames : ∀ n, Slot.var n ∈ xs.map liftB → convBinary (.str n) = none := by
    intro n hn
    simp only [List.mem_map] at hn
    obtain ⟨s, hs, hsl⟩ := hn
    cases s with
    | val v => simp [liftB] at hsl
    | var m =>
      simp only [liftB, Slot.var.injEq] at hsl
      subst hsl
      have := (slotsOk_mem _ _ hok).2 m hs
      simp [convBinary, valid_not_0b m this]
  have hvals : ∀ a, Slot.val a ∈ xs.map liftB → convBinary (canonB a) = some a := by
    intro a ha
    simp only [List.mem_map] at ha
    obtain ⟨s, _, hsl⟩ := ha
    cases s with
    | val v => simp only [liftB, Slot.val.injEq] at hsl; subst hsl; rfl
    | var m => simp [liftB] at hsl
  have hcl : ClosedFor convBinary e1 (slotVars (xs.map liftB)) := by
    rw [slotVars_map liftB (fun _ => rfl) (fun _ => ⟨_, rfl⟩)]; exact hc
  cases h1 : mkSlots convBinary (fillArgs canonB e1 (xs.map liftB)) with
  | none => simp [mkSlots_none_mono convBinary canonB e1 e2 _ h1]
  | some ys1 =>
    cases h2 : mkSlots convBinary (fillArgs canonB (e1 ++ e2) (xs.map liftB)) with
    | none => rfl
    | some ysC =>
      have hr := mkSlots_refines convBinary canonB e1 e2 _ ys1 ysC hcl hvals hnames h1 h2
      simp only [h1] at h
      simp only []
      by_cases href : ys1.any slotRefused = true
      · simp [refines_refused ys1 ysC hr href]
      · simp only [href, Bool.false_eq_true, if_false] at h
        by_cases hrefC : ysC.any slotRefused = true
        · simp [hrefC]
        · simp only [hrefC, Bool.false_eq_true, if_false]
          have hbad : slotsOk (fun (v : Int) => decide (0 ≤ v) && decide (v < 256)) (ys1.map (slotUnwrap 0)) = false := by
            cases hs : slotsOk (fun (v : Int) => decide (0 ≤ v) && decide (v < 256)) (ys1.map (slotUnwrap 0)) with
            | false => rfl
            | true => simp [hs] at h
          -- the template's own slots, as the factory sees them
          let xsI : List (Slot Int) := xs.map toIntSlot
          have hxsI : slotsOk (fun (v : Int) => decide (0 ≤ v) && decide (v < 256)) xsI = true := by
            simp only [slotsOk, Bool.and_eq_true, List.all_eq_true] at hok ⊢
            constructor
            · intro s hs
              simp only [xsI, List.mem_map] at hs
              obtain ⟨s0, hs0, rfl⟩ := hs
              have := hok.1 s0 hs0
              cases s0 with
              | val v => simp only [decide_eq_true_eq] at this; simp only [toIntSlot, Bool.and_eq_true, decide_eq_true_eq]; omega
              | var n => simpa [toIntSlot] using this
            · have : slotVars xsI = slotVars xs := slotVars_map toIntSlot (fun _ => rfl) (fun _ => ⟨_, rfl⟩) xs
              rw [this]; exact hok.2
          have hv := mkSlots_vars convBinary canonB e1 _ ys1 hcl hvals hnames h1
          have hv' : slotVars (ys1.map (slotUnwrap (0 : Int))) = (slotVars xsI).filter (unboundIn e1) := by
            rw [slotVars_map (slotUnwrap (0 : Int)) (fun _ => rfl) (fun a => by cases a <;> exact ⟨_, rfl⟩), hv,
              slotVars_map liftB (fun _ => rfl) (fun _ => ⟨_, rfl⟩)]
            congr 1
            exact (slotVars_map toIntSlot (fun _ => rfl) (fun _ => ⟨_, rfl⟩) xs).symm
          have hr' := refines_map (slotUnwrap (0 : Int)) (fun _ => rfl) (fun a => by cases a <;> exact ⟨_, rfl⟩) ys1 ysC hr
          simp [slotsOk_false_transfer _ xsI _ _ e1 hxsI hv' hr' hbad]

end Secs

namespace Secs
open Sml

theorem refuse_asciiVar (n : Name) (mn mx : Int) (e1 e2 : Env) (h : fillLeaf (.asciiVar n mn mx) e1 = none) :
    fillLeaf (.asciiVar n mn mx) (e1 ++ e2) = none := by
  simp only [fillLeaf] at h ⊢
  rw [get_append]
  cases h1 : Env.get? e1 n with
  | none => simp [h1] at h
  | some v => simp only [h1] at h ⊢; exact h

theorem fillSlots_length (child : Tmpl → Option Tmpl) (o : Env) : ∀ (xs : Slots) (a : List GoVal),
    fillSlots child o xs = some a → a.length = xs.len
  | .nil, a, h => by simp only [fillSlots, Option.some.injEq] at h; subst h; rfl
  | .var n r, a, h => by
    simp only [fillSlots] at h
    cases hr : fillSlots child o r with
    | none => simp [hr] at h
    | some a' =>
      simp only [hr, Option.map_some, Option.some.injEq] at h
      subst h
      simp [Slots.len, fillSlots_length child o r a' hr]
  | .item t r, a, h => by
    simp only [fillSlots] at h
    cases ht : child t with
    | none => simp [ht] at h
    | some t1 =>
      cases hr : fillSlots child o r with
      | none => simp [ht, hr] at h
      | some a' =>
        simp only [ht, hr, Option.some.injEq] at h
        subst h
        simp [Slots.len, fillSlots_length child o r a' hr]

theorem mkListSlots_tail_none (g : GoVal) (a : List GoVal) (h : mkListSlots a = none) : mkListSlots (g :: a) = none := by
  cases g <;> simp [mkListSlots, h]

/-- a refusal of the argument list by the list factory's conversion carries over -/
theorem listSlots_none_transfer (c1 cC : Tmpl → Option Tmpl) (o1 o2 : Env) :
    ∀ (xs : Slots) (a1 aC : List GoVal), fillSlots c1 o1 xs = some a1 → fillSlots cC (o1 ++ o2) xs = some aC →
      mkListSlots a1 = none → mkListSlots aC = none
  | .nil, a1, aC, h1, _, hm => by
    simp only [fillSlots, Option.some.injEq] at h1; subst h1; simp [mkListSlots] at hm
  | .var n r, a1, aC, h1, h2, hm => by
    simp only [fillSlots] at h1 h2
    cases hr1 : fillSlots c1 o1 r with
    | none => simp [hr1] at h1
    | some a1' =>
      cases hr2 : fillSlots cC (o1 ++ o2) r with
      | none => simp [hr2] at h2
      | some aC' =>
        simp only [hr1, hr2, Option.map_some, Option.some.injEq] at h1 h2
        subst h1; subst h2
        have ih := listSlots_none_transfer c1 cC o1 o2 r a1' aC' hr1 hr2
        rw [get_append]
        cases hg : Env.get? o1 n with
        | none =>
          simp only [hg] at hm ⊢
          apply mkListSlots_tail_none
          apply ih
          cases hr : mkListSlots a1' with
          | none => rfl
          | some y => simp [mkListSlots, hr] at hm
        | some v =>
          simp only [hg] at hm ⊢
          cases hr : mkListSlots a1' with
          | none => exact mkListSlots_tail_none _ _ (ih hr)
          | some y =>
            cases v <;> simp only [mkListSlots, hr] at hm ⊢ <;> simp at hm <;> rfl
  | .item t r, a1, aC, h1, h2, hm => by
    simp only [fillSlots] at h1 h2
    cases ht1 : c1 t with
    | none => simp [ht1] at h1
    | some t1 =>
      cases hr1 : fillSlots c1 o1 r with
      | none => simp [ht1, hr1] at h1
      | some a1' =>
        cases ht2 : cC t with
        | none => simp [ht2] at h2
        | some t2 =>
          cases hr2 : fillSlots cC (o1 ++ o2) r with
          | none => simp [ht2, hr2] at h2
          | some aC' =>
            simp only [ht1, hr1, ht2, hr2, Option.some.injEq] at h1 h2
            subst h1; subst h2
            apply mkListSlots_tail_none
            apply listSlots_none_transfer c1 cC o1 o2 r a1' aC' hr1 hr2
            cases hr : mkListSlots a1' with
            | none => rfl
            | some y => simp [mkListSlots, hr] at hm

/-- the own-variable check of the list factory still passes after a fill with closed values -/
theorem listOwnOk_after_fill (c1 : Tmpl → Option Tmpl) (o1 : Env) :
    ∀ (xs : Slots) (pos : Nat) (e : Bool) (a1 : List GoVal) (ys1 : Slots), noEllS xs = true → closedOnS o1 xs →
      fillSlots c1 o1 xs = some a1 → mkListSlots a1 = some ys1 → listOwnOk xs pos e = true → listOwnOk ys1 pos e = true
  | .nil, pos, e, a1, ys1, _, _, h1, hm, _ => by
    simp only [fillSlots, Option.some.injEq] at h1; subst h1
    simp only [mkListSlots, Option.some.injEq] at hm; subst hm; rfl
  | .var n r, pos, e, a1, ys1, hn, hc, h1, hm, hok => by
    simp only [noEllS, Bool.and_eq_true, Bool.not_eq_true'] at hn
    simp only [closedOnS] at hc
    simp only [fillSlots] at h1
    cases hr1 : fillSlots c1 o1 r with
    | none => simp [hr1] at h1
    | some a1' =>
      simp only [hr1, Option.map_some, Option.some.injEq] at h1
      subst h1
      have hvalid : isValidVarName n = true ∧ listOwnOk r (pos + 1) e = true := by
        simp only [listOwnOk] at hok
        split at hok
        · rename_i hv; exact ⟨hv, hok⟩
        · simp [hn.1] at hok
      cases hg : Env.get? o1 n with
      | none =>
        simp only [hg] at hm
        rcases mkListSlots_cons _ _ _ hm with ⟨t, ys', hgg, _, _⟩ | ⟨m, ys', hgg, rfl, hm'⟩
        · cases hgg
        · cases hgg
          simp only [listOwnOk, hvalid.1, if_true]
          exact listOwnOk_after_fill c1 o1 r (pos + 1) e a1' ys' hn.2 hc.2 hr1 hm' hvalid.2
      | some v =>
        simp only [hg] at hm
        obtain ⟨hns, _⟩ := hc.1 v hg
        rcases mkListSlots_cons _ _ _ hm with ⟨t', ys', hgg, rfl, hm'⟩ | ⟨m, ys', hgg, _, _⟩
        · simp only [listOwnOk]
          exact listOwnOk_after_fill c1 o1 r (pos + 1) e a1' ys' hn.2 hc.2 hr1 hm' hvalid.2
        · exact absurd hgg (hns m)
  | .item t r, pos, e, a1, ys1, hn, hc, h1, hm, hok => by
    simp only [noEllS, Bool.and_eq_true] at hn
    simp only [closedOnS] at hc
    simp only [fillSlots] at h1
    cases ht1 : c1 t with
    | none => simp [ht1] at h1
    | some t1 =>
      cases hr1 : fillSlots c1 o1 r with
      | none => simp [ht1, hr1] at h1
      | some a1' =>
        simp only [ht1, hr1, Option.some.injEq] at h1
        subst h1
        rcases mkListSlots_cons _ _ _ hm with ⟨t', ys', hgg, rfl, hm'⟩ | ⟨m, ys', hgg, _, _⟩
        · simp only [listOwnOk] at hok ⊢
          exact listOwnOk_after_fill c1 o1 r (pos + 1) e a1' ys' hn.2 hc.2 hr1 hm' hok
        · cases hgg

end Secs

namespace Secs
open Sml

mutual
/-- **A first step that is refused is refused in one step as well** (the refusal is caused by a
value of the first table, which the union still holds). -/
theorem refuse_T : ∀ (t : Tmpl) (fuel : Nat) (e1 e2 : Env),
    t.wf = true → noEllT t = true → noFloatT t = true → closedOnT e1 t → Env.get? e1 [] = none →
    t.depth ≤ fuel → fill (fuel + 1) t e1 = none → fill (fuel + 1) t (e1 ++ e2) = none
  | .list xs, fuel, e1, e2, hw, hn, hf, hc, he, hd, h => by
    have hx : noEllS xs = true := by simpa [noEllT] using hn
    cases fuel with
    | zero => simp [Tmpl.depth] at hd
    | succ k =>
      rw [fill_list_noEll (k + 1) xs _ hx] at h ⊢
      rw [List.filter_append]
      have hwf := hw
      simp only [Tmpl.wf, Bool.and_eq_true, decide_eq_true_eq] at hwf
      have hcS := closedOnS_filter e1 xs (by simpa [closedOnT] using hc)
      have heS := get_filter_none e1 (fun kv => !isEllKey kv) [] he
      cases ha : fillSlots (fun t => fill (k + 1) t (e1.filter (fun kv => !isEllKey kv))) (e1.filter (fun kv => !isEllKey kv)) xs with
      | none =>
        rw [refuse_S xs k _ (e2.filter (fun kv => !isEllKey kv)) hwf.1.1.2 hx (by simpa [noFloatT] using hf) hcS heS
          (by simp [Tmpl.depth] at hd; omega) ha]
        rfl
      | some a1 =>
        simp only [ha, Option.bind_some] at h
        cases hb : fillSlots (fun t => fill (k + 1) t (e1.filter (fun kv => !isEllKey kv) ++ e2.filter (fun kv => !isEllKey kv)))
            (e1.filter (fun kv => !isEllKey kv) ++ e2.filter (fun kv => !isEllKey kv)) xs with
        | none => rfl
        | some aC =>
          simp only [Option.bind_some]
          have hl1 := fillSlots_length _ _ xs a1 ha
          have hlC := fillSlots_length _ _ xs aC hb
          unfold mkList at h ⊢
          have hlen1 : ¬ a1.length > maxByteSize := by rw [hl1]; omega
          have hlenC : ¬ aC.length > maxByteSize := by rw [hlC]; omega
          simp only [hlen1, hlenC, if_false] at h ⊢
          cases hm : mkListSlots a1 with
          | none => rw [listSlots_none_transfer _ _ _ _ xs a1 aC ha hb hm]
          | some ys1 =>
            exfalso
            simp only [hm] at h
            have h1 := listOwnOk_after_fill _ _ xs 0 false a1 ys1 hx hcS ha hm hwf.1.2
            have h2 : nodupNames ys1.vars = true := by
              rw [vars_S xs k _ a1 ys1 hwf.1.1.2 hx (by simpa [noFloatT] using hf) hcS heS
                (by simp [Tmpl.depth] at hd; omega) ha hm]
              exact nodupNames_filter _ _ hwf.2
            simp [h1, h2] at h
  | .ascii s, fuel, e1, e2, _, _, _, _, _, _, h => by simp [fill, fillLeaf] at h
  | .empty, fuel, e1, e2, _, _, _, _, _, _, h => by simp [fill, fillLeaf] at h
  | .float _ _, _, _, _, _, _, hf, _, _, _, _ => by simp [noFloatT] at hf
  | .asciiVar n mn mx, fuel, e1, e2, _, _, _, _, _, _, h => by
    rw [fill_leaf _ _ _ rfl] at h ⊢
    exact refuse_asciiVar n mn mx e1 e2 h
  | .binary xs, fuel, e1, e2, hw, _, _, hc, _, _, h => by
    rw [fill_leaf _ _ _ rfl] at h ⊢
    exact refuse_binary xs e1 e2 hw (by simpa [closedOnT] using hc) h
  | .boolean xs, fuel, e1, e2, hw, _, _, hc, _, _, h => by
    rw [fill_leaf _ _ _ rfl] at h ⊢
    exact refuse_boolean xs e1 e2 hw (by simpa [closedOnT] using hc) h
  | .int w xs, fuel, e1, e2, hw, _, _, hc, _, _, h => by
    rw [fill_leaf _ _ _ rfl] at h ⊢
    exact refuse_int w xs e1 e2 hw (by simpa [closedOnT] using hc) h
  | .uint w xs, fuel, e1, e2, hw, _, _, hc, _, _, h => by
    rw [fill_leaf _ _ _ rfl] at h ⊢
    exact refuse_uint w xs e1 e2 hw (by simpa [closedOnT] using hc) h
theorem refuse_S : ∀ (xs : Slots) (fuel : Nat) (o1 o2 : Env),
    xs.wfAll = true → noEllS xs = true → noFloatS xs = true → closedOnS o1 xs → Env.get? o1 [] = none →
    xs.depth ≤ fuel →
    fillSlots (fun t => fill (fuel + 1) t o1) o1 xs = none →
    fillSlots (fun t => fill (fuel + 1) t (o1 ++ o2)) (o1 ++ o2) xs = none
  | .nil, _, _, _, _, _, _, _, _, _, h => by simp [fillSlots] at h
  | .var n r, fuel, o1, o2, hw, hn, hf, hc, he, hd, h => by
    simp only [noEllS, Bool.and_eq_true] at hn
    simp only [closedOnS] at hc
    simp only [fillSlots] at h ⊢
    cases hr : fillSlots (fun t => fill (fuel + 1) t o1) o1 r with
    | none =>
      rw [refuse_S r fuel o1 o2 (by simpa [Slots.wfAll] using hw) hn.2 (by simpa [noFloatS] using hf) hc.2 he
        (by simpa [Slots.depth] using hd) hr]
      rfl
    | some a => simp [hr] at h
  | .item t r, fuel, o1, o2, hw, hn, hf, hc, he, hd, h => by
    simp only [noEllS, Bool.and_eq_true] at hn
    simp only [noFloatS, Bool.and_eq_true] at hf
    simp only [Slots.wfAll, Bool.and_eq_true] at hw
    simp only [closedOnS] at hc
    simp only [Slots.depth] at hd
    simp only [fillSlots] at h ⊢
    cases ht : fill (fuel + 1) t o1 with
    | none =>
      rw [refuse_T t fuel o1 o2 hw.1 hn.1 hf.1 hc.1 he (by omega) ht]
    | some t1 =>
      cases hr : fillSlots (fun t => fill (fuel + 1) t o1) o1 r with
      | none =>
        rw [refuse_S r fuel o1 o2 hw.2 hn.2 hf.2 hc.2 he (by omega) hr]
        cases fill (fuel + 1) t (o1 ++ o2) <;> rfl
      | some a => simp [ht, hr] at h
end

/-- **C09, composition, unconditional**: filling once with the union is filling with the first
table and then — if that was accepted — with the second; refusals included. -/
theorem Tmpl.fill_compose_bind (t : Tmpl) (e1 e2 : Env) (hw : t.wf = true) (hn : noEllT t = true) (hf : noFloatT t = true)
    (hc : closedOnT e1 t) (he : Env.get? e1 [] = none) :
    t.fill (e1 ++ e2) = (t.fill e1).bind (fun t1 => t1.fill e2) := by
  cases h : t.fill e1 with
  | none => exact refuse_T t t.depth e1 e2 hw hn hf hc he (Nat.le_refl _) h
  | some t1 => exact (Tmpl.fill_compose t t1 e1 e2 hw hn hf hc h).symm

end Secs
