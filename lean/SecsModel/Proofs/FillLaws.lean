/-
Laws of FillVariables on the model: a fill that binds none of a template's variables gives the
template back, at every nesting depth (unknown keys are ignored; the structure is rebuilt
through the factories and they return it unchanged).
-/
import SecsModel.Model.Fill
import SecsModel.Proofs.PrintToks
namespace Secs
open Sml

-- no ellipsis variable anywhere in the tree
mutual
def noEllT : Tmpl → Bool
  | .list xs => noEllS xs
  | _ => true
def noEllS : Slots → Bool
  | .nil => true
  | .item t r => noEllT t && noEllS r
  | .var n r => !isEllipsis n && noEllS r
end

theorem findEll_noEll (ev : Env) : ∀ (xs : Slots) (i : Nat), noEllS xs = true → findEll ev xs i = none
  | .nil, _, _ => rfl
  | .item _ r, i, h => by
    simp only [noEllS, Bool.and_eq_true] at h
    simp only [findEll]; exact findEll_noEll ev r (i + 1) h.2
  | .var n r, i, h => by
    simp only [noEllS, Bool.and_eq_true, Bool.not_eq_true'] at h
    simp only [findEll, h.1, Bool.false_eq_true, if_false]; exact findEll_noEll ev r (i + 1) h.2

theorem hasUnfilled_noEll (ev : Env) : ∀ xs : Slots, noEllS xs = true → hasUnfilledEll ev xs = false
  | .nil, _ => rfl
  | .item _ r, h => by
    simp only [noEllS, Bool.and_eq_true] at h
    simp only [hasUnfilledEll]; exact hasUnfilled_noEll ev r h.2
  | .var n r, h => by
    simp only [noEllS, Bool.and_eq_true, Bool.not_eq_true'] at h
    simp [hasUnfilledEll, h.1, hasUnfilled_noEll ev r h.2]

mutual
theorem ellAnalysisT_noEll (ev : Env) : ∀ t : Tmpl, noEllT t = true → ellAnalysisT ev t = some (0, 0)
  | .list xs, h => by
    have hx : noEllS xs = true := by simpa [noEllT] using h
    simp [ellAnalysisT, findEll_noEll ev xs 0 hx, ellAnalysisS_noEll ev xs hx, hasUnfilled_noEll ev xs hx]
  | .ascii _, _ => rfl
  | .asciiVar _ _ _, _ => rfl
  | .binary _, _ => rfl
  | .boolean _, _ => rfl
  | .int _ _, _ => rfl
  | .uint _ _, _ => rfl
  | .float _ _, _ => rfl
  | .empty, _ => rfl
theorem ellAnalysisS_noEll (ev : Env) : ∀ xs : Slots, noEllS xs = true → ellAnalysisS ev xs = some (0, 0)
  | .nil, _ => rfl
  | .var n r, h => by
    simp only [noEllS, Bool.and_eq_true] at h
    simp only [ellAnalysisS]; exact ellAnalysisS_noEll ev r h.2
  | .item t r, h => by
    simp only [noEllS, Bool.and_eq_true] at h
    simp [ellAnalysisS, ellAnalysisT_noEll ev t h.1, ellAnalysisS_noEll ev r h.2]
end

/-- an ellipsis-free list: FillVariables is the second phase only -/
theorem fill_list_noEll (fuel : Nat) (xs : Slots) (env : Env) (h : noEllS xs = true) :
    fill (fuel + 1) (.list xs) env =
      (fillSlots (fun t => fill fuel t (env.filter (fun kv => !isEllKey kv))) (env.filter (fun kv => !isEllKey kv)) xs).bind mkList := by
  have ha := ellAnalysisT_noEll (env.filter isEllKey) (.list xs) (by simpa [noEllT] using h)
  simp only [fill, ha]
  split
  · simp_all
    split <;> simp_all
  · simp_all

theorem get_filter_none (env : Env) (p : Name × GoVal → Bool) (n : Name) (h : env.get? n = none) :
    Env.get? (env.filter p) n = none := by
  induction env with
  | nil => rfl
  | cons kv r ih =>
    obtain ⟨k, v⟩ := kv
    simp only [Env.get?] at h
    split at h
    · cases h
    · rename_i hk
      simp only [List.filter_cons]
      split
      · simp only [Env.get?, hk, Bool.false_eq_true, if_false]; exact ih h
      · exact ih h

theorem fillLeaf_unbound (t : Tmpl) (env : Env) (hl : t.isList = false) (hu : ∀ v ∈ t.vars, env.get? v = none) :
    fillLeaf t env = some t := by
  have hany : ∀ {α} (xs : List (Slot α)), (∀ v ∈ slotVars xs, env.get? v = none) → anyBound env xs = false := by
    intro α xs h
    simp only [anyBound, List.any_eq_false]
    intro v hv
    simp [h v hv]
  cases t with
  | list xs => simp [Tmpl.isList] at hl
  | ascii s => rfl
  | asciiVar n mn mx => simp [fillLeaf, hu n (by simp [Tmpl.vars])]
  | empty => rfl
  | binary xs => simp [fillLeaf, hany xs (by simpa [Tmpl.vars] using hu)]
  | boolean xs => simp [fillLeaf, hany xs (by simpa [Tmpl.vars] using hu)]
  | int w xs => simp [fillLeaf, hany xs (by simpa [Tmpl.vars] using hu)]
  | uint w xs => simp [fillLeaf, hany xs (by simpa [Tmpl.vars] using hu)]
  | float w xs => simp [fillLeaf, hany xs (by simpa [Tmpl.vars] using hu)]

mutual
/-- **Unknown keys are ignored, at every depth**: a fill that binds no variable of an
ellipsis-free, well-formed template returns the template itself. -/
theorem fill_identity : ∀ (t : Tmpl) (fuel : Nat) (env : Env), t.depth ≤ fuel → t.wf = true → noEllT t = true →
    (∀ v ∈ t.vars, env.get? v = none) → fill (fuel + 1) t env = some t
  | .list xs, fuel, env, hd, hw, hn, hu => by
    have hx : noEllS xs = true := by simpa [noEllT] using hn
    have hwf := hw
    simp only [Tmpl.wf, Bool.and_eq_true] at hwf
    cases fuel with
    | zero => simp [Tmpl.depth] at hd
    | succ k =>
      rw [fill_list_noEll (k + 1) xs env hx]
      have := fillSlots_identity xs k (env.filter (fun kv => !isEllKey kv)) (by simp [Tmpl.depth] at hd; omega) hwf.1.1.2 hx
        (fun v hv => get_filter_none env _ v (hu v (by simpa [Tmpl.vars] using hv)))
      rw [this]
      exact mkList_wf xs hw
  | .ascii s, fuel, env, _, _, _, hu => by simp [fill, fillLeaf]
  | .asciiVar n a b, fuel, env, _, _, _, hu => by simpa [fill] using fillLeaf_unbound _ env rfl hu
  | .binary xs, fuel, env, _, _, _, hu => by simpa [fill] using fillLeaf_unbound _ env rfl hu
  | .boolean xs, fuel, env, _, _, _, hu => by simpa [fill] using fillLeaf_unbound _ env rfl hu
  | .int w xs, fuel, env, _, _, _, hu => by simpa [fill] using fillLeaf_unbound _ env rfl hu
  | .uint w xs, fuel, env, _, _, _, hu => by simpa [fill] using fillLeaf_unbound _ env rfl hu
  | .float w xs, fuel, env, _, _, _, hu => by simpa [fill] using fillLeaf_unbound _ env rfl hu
  | .empty, fuel, env, _, _, _, _ => by simp [fill, fillLeaf]
theorem fillSlots_identity : ∀ (xs : Slots) (fuel : Nat) (ov : Env), xs.depth ≤ fuel → xs.wfAll = true → noEllS xs = true →
    (∀ v ∈ xs.vars, ov.get? v = none) →
    fillSlots (fun t => fill (fuel + 1) t ov) ov xs = some (slotArgs xs)
  | .nil, _, _, _, _, _, _ => rfl
  | .var n r, fuel, ov, hd, hw, hn, hu => by
    simp only [noEllS, Bool.and_eq_true] at hn
    have := fillSlots_identity r fuel ov (by simpa [Slots.depth] using hd) (by simpa [Slots.wfAll] using hw) hn.2
      (fun v hv => hu v (by simp [Slots.vars, hv]))
    simp [fillSlots, this, hu n (by simp [Slots.vars]), slotArgs]
  | .item t r, fuel, ov, hd, hw, hn, hu => by
    simp only [noEllS, Bool.and_eq_true] at hn
    simp only [Slots.wfAll, Bool.and_eq_true] at hw
    simp only [Slots.depth] at hd
    have hvt : ∀ v ∈ t.vars, ov.get? v = none := by
      intro v hv
      apply hu
      cases t <;> simp_all [Slots.vars, Tmpl.vars]
    have hvr : ∀ v ∈ r.vars, ov.get? v = none := by
      intro v hv
      apply hu
      cases t <;> simp_all [Slots.vars]
    have h1 := fill_identity t fuel ov (by omega) hw.1 hn.1 hvt
    have h2 := fillSlots_identity r fuel ov (by omega) hw.2 hn.2 hvr
    simp [fillSlots, h1, h2, slotArgs]
end

/-- ItemNode.FillVariables with a table that names none of the template's variables -/
theorem Tmpl.fill_unknown (t : Tmpl) (env : Env) (hw : t.wf = true) (hn : noEllT t = true)
    (hu : ∀ v ∈ t.vars, env.get? v = none) : t.fill env = some t :=
  fill_identity t t.depth env (Nat.le_refl _) hw hn hu

end Secs

/-! ## Composition: filling in two steps is filling once with the union of the tables

`e1 ++ e2` is the union in which `e1` wins on a common key (the key is no longer a variable
when `e2` is applied). The fill-in values are closed: a value for an array slot is not itself a
variable name. -/
namespace Secs

theorem get_append (e1 e2 : Env) (n : Name) :
    Env.get? (e1 ++ e2) n = (match Env.get? e1 n with | some v => some v | none => Env.get? e2 n) := by
  induction e1 with
  | nil => simp [Env.get?]
  | cons kv r ih =>
    obtain ⟨k, v⟩ := kv
    simp only [List.cons_append, Env.get?]
    split
    · rfl
    · exact ih

/-- the head of the factory's argument list is handled independently of the tail -/
theorem mkSlots_cons_congr {α} (conv : GoVal → Option α) (g : GoVal) (A B : List GoVal)
    (h : mkSlots conv A = mkSlots conv B) : mkSlots conv (g :: A) = mkSlots conv (g :: B) := by
  cases g <;> simp only [mkSlots, h]

theorem mkSlots_cons_some {α} (conv : GoVal → Option α) (g : GoVal) (a : α) (A : List GoVal)
    (h : conv g = some a) : mkSlots conv (g :: A) = (mkSlots conv A).map (Slot.val a :: ·) := by
  cases g <;> simp only [mkSlots, h]

theorem mkSlots_cons_name {α} (conv : GoVal → Option α) (n : Name) (A : List GoVal)
    (h : conv (.str n) = none) : mkSlots conv (.str n :: A) = (mkSlots conv A).map (Slot.var n :: ·) := by
  simp only [mkSlots, h]

theorem mkSlots_cons_refused {α} (conv : GoVal → Option α) (g : GoVal) (A : List GoVal)
    (h : conv g = none) (hs : ∀ s, g ≠ .str s) : mkSlots conv (g :: A) = none := by
  cases g <;> first | exact absurd rfl (hs _) | simp only [mkSlots, h]

/-- a table whose values are closed for the factory `conv`: a string value is a literal the
factory converts (binary "0b…"), never a variable name -/
def ClosedFor {α} (conv : GoVal → Option α) (e : Env) (names : List Name) : Prop :=
  ∀ n ∈ names, ∀ s, e.get? n = some (.str s) → (conv (.str s)).isSome = true

theorem ClosedFor.tail {α} {conv : GoVal → Option α} {e : Env} {n : Name} {r : List Name}
    (h : ClosedFor conv e (n :: r)) : ClosedFor conv e r := fun m hm => h m (by simp [hm])

/-- **Array factories compose.** If the first fill is accepted with slots `ys`, then filling
`ys` with `e2` hands the factory a list it treats exactly like the one-step list. -/
theorem mkSlots_compose {α} (conv : GoVal → Option α) (canon : α → GoVal) (e1 e2 : Env)
    :
    ∀ (xs : List (Slot α)) (ys : List (Slot α)), ClosedFor conv e1 (slotVars xs) →
      (∀ a, Slot.val a ∈ xs → conv (canon a) = some a) →
      (∀ a, Slot.val a ∈ ys → conv (canon a) = some a) →
      (∀ n, Slot.var n ∈ xs → conv (.str n) = none) →
      mkSlots conv (fillArgs canon e1 xs) = some ys →
      mkSlots conv (fillArgs canon e2 ys) = mkSlots conv (fillArgs canon (e1 ++ e2) xs)
  | [], ys, _, _, _, _, h => by
    simp only [fillArgs, mkSlots, Option.some.injEq] at h
    subst h; rfl
  | .val a :: r, ys, hc, hx, hy, hn, h => by
    have ha := hx a (by simp)
    simp only [fillArgs] at h ⊢
    rw [mkSlots_cons_some conv _ a _ ha] at h
    cases hr : mkSlots conv (fillArgs canon e1 r) with
    | none => simp [hr] at h
    | some ys' =>
      simp only [hr, Option.map_some, Option.some.injEq] at h
      subst h
      simp only [fillArgs]
      exact mkSlots_cons_congr conv _ _ _
        (mkSlots_compose conv canon e1 e2 r ys' (by simpa [slotVars] using hc) (fun a h => hx a (by simp [h])) (fun a h => hy a (by simp [h]))
          (fun n h => hn n (by simp [h])) hr)
  | .var n :: r, ys, hc, hx, hy, hn, h => by
    have hnm := hn n (by simp)
    simp only [fillArgs, get_append] at h ⊢
    cases h1 : Env.get? e1 n with
    | none =>
      simp only [h1] at h ⊢
      rw [mkSlots_cons_name conv n _ hnm] at h
      cases hr : mkSlots conv (fillArgs canon e1 r) with
      | none => simp [hr] at h
      | some ys' =>
        simp only [hr, Option.map_some, Option.some.injEq] at h
        subst h
        simp only [fillArgs]
        exact mkSlots_cons_congr conv _ _ _
          (mkSlots_compose conv canon e1 e2 r ys' hc.tail (fun a h => hx a (by simp [h])) (fun a h => hy a (by simp [h]))
            (fun n h => hn n (by simp [h])) hr)
    | some v =>
      simp only [h1] at h ⊢
      cases hv : conv v with
      | none =>
        exfalso
        by_cases hs : ∃ s, v = .str s
        · obtain ⟨s, rfl⟩ := hs
          have := hc n (by simp [slotVars]) s h1
          simp [hv] at this
        · rw [mkSlots_cons_refused conv v _ hv (fun s hs' => hs ⟨s, hs'⟩)] at h
          cases h
      | some a =>
        rw [mkSlots_cons_some conv v a _ hv] at h ⊢
        cases hr : mkSlots conv (fillArgs canon e1 r) with
        | none => simp [hr] at h
        | some ys' =>
          simp only [hr, Option.map_some, Option.some.injEq] at h
          subst h
          have ha := hy a (by simp)
          simp only [fillArgs]
          rw [mkSlots_cons_some conv _ a _ ha]
          rw [mkSlots_compose conv canon e1 e2 r ys' hc.tail (fun a h => hx a (by simp [h])) (fun a h => hy a (by simp [h]))
            (fun n h => hn n (by simp [h])) hr]

theorem fillArgs_length {α} (canon : α → GoVal) (e : Env) (xs : List (Slot α)) :
    (fillArgs canon e xs).length = xs.length := by
  induction xs with
  | nil => rfl
  | cons x r ih => cases x <;> simp [fillArgs, ih]

theorem mkSlots_length {α} (conv : GoVal → Option α) : ∀ (A : List GoVal) (ys : List (Slot α)),
    mkSlots conv A = some ys → ys.length = A.length
  | [], ys, h => by simp only [mkSlots, Option.some.injEq] at h; subst h; rfl
  | g :: A, ys, h => by
    cases hr : mkSlots conv A with
    | none => cases g <;> simp only [mkSlots, hr] at h <;> (try split at h) <;> simp at h
    | some ys' =>
      have := mkSlots_length conv A ys' hr
      cases g <;> simp only [mkSlots, hr] at h <;> (try split at h) <;> simp at h <;> (try subst h) <;> simp [this]

/-- an unbound table changes nothing in the argument list -/
theorem fillArgs_unbound {α} (canon : α → GoVal) (e : Env) (xs : List (Slot α))
    (h : anyBound e xs = false) : fillArgs canon e xs = xs.map (Sml.argOf canon) := by
  induction xs with
  | nil => rfl
  | cons x r ih =>
    cases x with
    | val a =>
      have : anyBound e r = false := by simpa [anyBound, slotVars] using h
      simp [fillArgs, Sml.argOf, ih this]
    | var n =>
      simp only [anyBound, slotVars, List.any_cons, Bool.or_eq_false_iff] at h
      have hn : e.get? n = none := by cases hg : e.get? n <;> simp_all
      have : anyBound e r = false := by simpa [anyBound] using h.2
      simp [fillArgs, Sml.argOf, hn, ih this]

theorem anyBound_append {α} (e1 e2 : Env) (xs : List (Slot α)) :
    anyBound (e1 ++ e2) xs = (anyBound e1 xs || anyBound e2 xs) := by
  simp only [anyBound]
  induction slotVars xs with
  | nil => rfl
  | cons n r ih =>
    simp only [List.any_cons, ih]
    rw [get_append]
    cases h1 : Env.get? e1 n <;> cases h2 : Env.get? e2 n <;> simp [Bool.or_comm, Bool.or_left_comm]

theorem fillArgs_append_unbound {α} (canon : α → GoVal) (e1 e2 : Env) (xs : List (Slot α))
    (h : anyBound e1 xs = false) : fillArgs canon (e1 ++ e2) xs = fillArgs canon e2 xs := by
  induction xs with
  | nil => rfl
  | cons x r ih =>
    cases x with
    | val a =>
      have : anyBound e1 r = false := by simpa [anyBound, slotVars] using h
      simp [fillArgs, ih this]
    | var n =>
      simp only [anyBound, slotVars, List.any_cons, Bool.or_eq_false_iff] at h
      have hn : e1.get? n = none := by cases hg : e1.get? n <;> simp_all
      have : anyBound e1 r = false := by simpa [anyBound] using h.2
      simp [fillArgs, get_append, hn, ih this]

end Secs

namespace Secs
open Sml

/-! ### integer, unsigned and boolean arrays -/

theorem validWidth_opt_int (w : Nat) (h : validWidthInt w = true) : optWidth (intFmt? w) = w := by
  simp only [validWidthInt, Bool.or_eq_true, beq_iff_eq] at h
  rcases h with ((rfl | rfl) | rfl) | rfl <;> rfl

theorem validWidth_opt_uint (w : Nat) (h : validWidthInt w = true) : optWidth (uintFmt? w) = w := by
  simp only [validWidthInt, Bool.or_eq_true, beq_iff_eq] at h
  rcases h with ((rfl | rfl) | rfl) | rfl <;> rfl

theorem mkInt_congr (w : Nat) (A B : List GoVal) (hl : A.length = B.length)
    (h : mkSlots convInt A = mkSlots convInt B) : mkInt w A = mkInt w B := by
  simp only [mkInt, hl, h]

theorem mkUint_congr (w : Nat) (A B : List GoVal) (hl : A.length = B.length)
    (h : mkSlots convUint A = mkSlots convUint B) : mkUint w A = mkUint w B := by
  simp only [mkUint, hl, h]

theorem mkBoolean_congr (A B : List GoVal) (hl : A.length = B.length)
    (h : mkSlots convBool A = mkSlots convBool B) : mkBoolean A = mkBoolean B := by
  simp only [mkBoolean, hl, h]

/-- what an accepted integer factory call returns -/
theorem mkInt_some (w : Nat) (A : List GoVal) (t : Tmpl) (h : mkInt w A = some t) :
    ∃ ys, t = .int w ys ∧ mkSlots convInt A = some ys ∧ t.wf = true := by
  unfold mkInt at h
  dsimp only at h
  split at h
  · cases h
  · rename_i hlen
    split at h
    · cases h
    · rename_i ys hys
      split at h
      · rename_i hok
        cases h
        simp only [Bool.and_eq_true] at hok
        refine ⟨ys, rfl, hys, ?_⟩
        have hl := mkSlots_length convInt A ys hys
        rw [validWidth_opt_int w hok.1] at hlen
        simp only [Tmpl.wf, Bool.and_eq_true, decide_eq_true_eq]
        exact ⟨⟨hok.1, by rw [hl]; omega⟩, hok.2⟩
      · cases h

theorem mkUint_some (w : Nat) (A : List GoVal) (t : Tmpl) (h : mkUint w A = some t) :
    ∃ ys, t = .uint w ys ∧ mkSlots convUint A = some ys ∧ t.wf = true := by
  unfold mkUint at h
  dsimp only at h
  split at h
  · cases h
  · rename_i hlen
    split at h
    · cases h
    · rename_i ys hys
      split at h
      · rename_i hok
        cases h
        simp only [Bool.and_eq_true] at hok
        refine ⟨ys, rfl, hys, ?_⟩
        have hl := mkSlots_length convUint A ys hys
        rw [validWidth_opt_uint w hok.1] at hlen
        simp only [Tmpl.wf, Bool.and_eq_true, decide_eq_true_eq]
        exact ⟨⟨hok.1, by rw [hl]; omega⟩, hok.2⟩
      · cases h

theorem mkBoolean_some (A : List GoVal) (t : Tmpl) (h : mkBoolean A = some t) :
    ∃ ys, t = .boolean ys ∧ mkSlots convBool A = some ys ∧ t.wf = true := by
  unfold mkBoolean at h
  split at h
  · cases h
  · rename_i hlen
    split at h
    · cases h
    · rename_i ys hys
      split at h
      · rename_i hok
        cases h
        refine ⟨ys, rfl, hys, ?_⟩
        have hl := mkSlots_length convBool A ys hys
        simp only [Tmpl.wf, Bool.and_eq_true, decide_eq_true_eq]
        exact ⟨by rw [hl]; omega, hok⟩
      · cases h

/-- on a well-formed node, FillVariables *is* the factory on the substituted slots, whether or
not a variable is bound (an unbound fill rebuilds the node it already is) -/
theorem fillLeaf_int (w : Nat) (xs : List (Slot Int)) (e : Env) (hw : (Tmpl.int w xs).wf = true) :
    fillLeaf (.int w xs) e = mkInt w (fillArgs (.sint 64) e xs) := by
  simp only [fillLeaf]
  split
  · rfl
  · rename_i hb
    rw [fillArgs_unbound _ e xs (by simpa using hb), Sml.rebuild_int w xs hw]

theorem fillLeaf_uint (w : Nat) (xs : List (Slot Nat)) (e : Env) (hw : (Tmpl.uint w xs).wf = true) :
    fillLeaf (.uint w xs) e = mkUint w (fillArgs (.uint 64) e xs) := by
  simp only [fillLeaf]
  split
  · rfl
  · rename_i hb
    rw [fillArgs_unbound _ e xs (by simpa using hb), Sml.rebuild_uint w xs hw]

theorem fillLeaf_boolean (xs : List (Slot Bool)) (e : Env) (hw : (Tmpl.boolean xs).wf = true) :
    fillLeaf (.boolean xs) e = mkBoolean (fillArgs .bool e xs) := by
  simp only [fillLeaf]
  split
  · rfl
  · rename_i hb
    rw [fillArgs_unbound _ e xs (by simpa using hb), Sml.rebuild_bool xs hw]

theorem compose_int (w : Nat) (xs : List (Slot Int)) (e1 e2 : Env) (t1 : Tmpl)
    (hw : (Tmpl.int w xs).wf = true) (hc : ClosedFor convInt e1 (slotVars xs))
    (h : fillLeaf (.int w xs) e1 = some t1) :
    t1.wf = true ∧ t1.isList = false ∧ fillLeaf t1 e2 = fillLeaf (.int w xs) (e1 ++ e2) := by
  rw [fillLeaf_int w xs e1 hw] at h
  obtain ⟨ys, rfl, hys, hwf⟩ := mkInt_some w _ t1 h
  refine ⟨hwf, rfl, ?_⟩
  rw [fillLeaf_int w ys e2 hwf, fillLeaf_int w xs _ hw]
  apply mkInt_congr
  · rw [fillArgs_length, fillArgs_length, mkSlots_length _ _ _ hys, fillArgs_length]
  · exact mkSlots_compose convInt (.sint 64) e1 e2 xs ys hc (fun _ _ => rfl) (fun _ _ => rfl) (fun _ _ => rfl) hys

theorem compose_uint (w : Nat) (xs : List (Slot Nat)) (e1 e2 : Env) (t1 : Tmpl)
    (hw : (Tmpl.uint w xs).wf = true) (hc : ClosedFor convUint e1 (slotVars xs))
    (h : fillLeaf (.uint w xs) e1 = some t1) :
    t1.wf = true ∧ t1.isList = false ∧ fillLeaf t1 e2 = fillLeaf (.uint w xs) (e1 ++ e2) := by
  rw [fillLeaf_uint w xs e1 hw] at h
  obtain ⟨ys, rfl, hys, hwf⟩ := mkUint_some w _ t1 h
  refine ⟨hwf, rfl, ?_⟩
  rw [fillLeaf_uint w ys e2 hwf, fillLeaf_uint w xs _ hw]
  apply mkUint_congr
  · rw [fillArgs_length, fillArgs_length, mkSlots_length _ _ _ hys, fillArgs_length]
  · exact mkSlots_compose convUint (.uint 64) e1 e2 xs ys hc (fun _ _ => rfl) (fun _ _ => rfl) (fun _ _ => rfl) hys

theorem compose_boolean (xs : List (Slot Bool)) (e1 e2 : Env) (t1 : Tmpl)
    (hw : (Tmpl.boolean xs).wf = true) (hc : ClosedFor convBool e1 (slotVars xs))
    (h : fillLeaf (.boolean xs) e1 = some t1) :
    t1.wf = true ∧ t1.isList = false ∧ fillLeaf t1 e2 = fillLeaf (.boolean xs) (e1 ++ e2) := by
  rw [fillLeaf_boolean xs e1 hw] at h
  obtain ⟨ys, rfl, hys, hwf⟩ := mkBoolean_some _ t1 h
  refine ⟨hwf, rfl, ?_⟩
  rw [fillLeaf_boolean ys e2 hwf, fillLeaf_boolean xs _ hw]
  apply mkBoolean_congr
  · rw [fillArgs_length, fillArgs_length, mkSlots_length _ _ _ hys, fillArgs_length]
  · exact mkSlots_compose convBool .bool e1 e2 xs ys hc (fun _ _ => rfl) (fun _ _ => rfl) (fun _ _ => rfl) hys

end Secs

namespace Secs
open Sml

/-! ### binary arrays: the factory converts through an intermediate `Option Int` -/

def liftB : Slot Nat → Slot (Option Int)
  | .val v => .val (some (v : Int))
  | .var n => .var n

def canonB : Option Int → GoVal
  | some v => .sint 0 v
  | none => .other

theorem fillArgs_liftB (e : Env) (xs : List (Slot Nat)) :
    fillArgs (fun (v : Nat) => GoVal.sint 0 v) e xs = fillArgs canonB e (xs.map liftB) := by
  induction xs with
  | nil => rfl
  | cons x r ih => cases x <;> simp [fillArgs, liftB, canonB, ih]

theorem slotVars_map {α β} (f : Slot α → Slot β) (hf : ∀ n, f (.var n) = .var n)
    (hv : ∀ a, ∃ b, f (.val a) = .val b) (l : List (Slot α)) : slotVars (l.map f) = slotVars l := by
  induction l with
  | nil => rfl
  | cons x r ih =>
    cases x with
    | val a => obtain ⟨b, hb⟩ := hv a; simp [slotVars, hb, ih]
    | var n => simp [slotVars, hf, ih]

theorem mkBinary_congr (A B : List GoVal) (hl : A.length = B.length)
    (h : mkSlots convBinary A = mkSlots convBinary B) : mkBinary A = mkBinary B := by
  simp only [mkBinary, hl, h]

theorem mkBinary_some (A : List GoVal) (t : Tmpl) (h : mkBinary A = some t) :
    ∃ ys zs, t = .binary zs ∧ mkSlots convBinary A = some ys ∧ zs.map liftB = ys ∧ t.wf = true := by
  unfold mkBinary at h
  split at h
  · cases h
  · rename_i hlen
    split at h
    · cases h
    · rename_i ys hys
      split at h
      · cases h
      · rename_i href
        dsimp only at h
        split at h
        · rename_i hok
          cases h
          refine ⟨ys, _, rfl, hys, ?_, ?_⟩
          · -- lifting the stored bytes gives the intermediate slots back
            have hmem := (slotsOk_mem _ _ hok).1
            simp only [List.map_map]
            have : ∀ s ∈ ys, (liftB ∘ (fun s => match s with | Slot.val (v : Int) => Slot.val v.toNat | .var n => .var n) ∘ slotUnwrap 0) s = s := by
              intro s hs
              cases s with
              | var n => rfl
              | val o =>
                cases o with
                | none =>
                  exfalso
                  apply href
                  simp only [List.any_eq_true]
                  exact ⟨_, hs, rfl⟩
                | some v =>
                  have hv := hmem v (by simp only [List.mem_map]; exact ⟨_, hs, rfl⟩)
                  simp only [Bool.and_eq_true, decide_eq_true_eq] at hv
                  simp only [Function.comp, slotUnwrap, liftB]
                  congr 2
                  omega
            calc List.map _ ys = List.map id ys := List.map_congr_left this
              _ = ys := List.map_id ys
          · have hl := mkSlots_length convBinary A ys hys
            simp only [Tmpl.wf, Bool.and_eq_true, decide_eq_true_eq, List.length_map]
            refine ⟨by omega, ?_⟩
            -- ranges and names carry over to the stored bytes
            simp only [slotsOk, Bool.and_eq_true, List.all_eq_true] at hok ⊢
            constructor
            · intro s hs
              simp only [List.mem_map] at hs
              obtain ⟨s1, ⟨s0, hs0, rfl⟩, rfl⟩ := hs
              have := hok.1 _ (List.mem_map.mpr ⟨s0, hs0, rfl⟩)
              cases s0 with
              | var n => simpa [slotUnwrap] using this
              | val o =>
                cases o with
                | none => simp [slotUnwrap]
                | some v =>
                  simp only [slotUnwrap, Bool.and_eq_true, decide_eq_true_eq] at this ⊢
                  omega
            · refine (congrArg nodupNames (slotVars_map _ ?_ ?_ _)).trans hok.2
              · intro n; rfl
              · intro a; exact ⟨_, rfl⟩
        · cases h

theorem fillLeaf_binary (xs : List (Slot Nat)) (e : Env) (hw : (Tmpl.binary xs).wf = true) :
    fillLeaf (.binary xs) e = mkBinary (fillArgs (fun (v : Nat) => GoVal.sint 0 v) e xs) := by
  simp only [fillLeaf]
  split
  · rfl
  · rename_i hb
    rw [fillArgs_unbound _ e xs (by simpa using hb), Sml.rebuild_binary xs hw]

theorem compose_binary (xs : List (Slot Nat)) (e1 e2 : Env) (t1 : Tmpl)
    (hw : (Tmpl.binary xs).wf = true) (hc : ClosedFor convBinary e1 (slotVars xs))
    (h : fillLeaf (.binary xs) e1 = some t1) :
    t1.wf = true ∧ t1.isList = false ∧ fillLeaf t1 e2 = fillLeaf (.binary xs) (e1 ++ e2) := by
  rw [fillLeaf_binary xs e1 hw] at h
  obtain ⟨ys, zs, rfl, hys, hz, hwf⟩ := mkBinary_some _ t1 h
  refine ⟨hwf, rfl, ?_⟩
  rw [fillLeaf_binary zs e2 hwf, fillLeaf_binary xs _ hw]
  have hlen : zs.length = xs.length := by
    have := mkSlots_length _ _ _ hys
    rw [fillArgs_length] at this
    rw [← this, ← hz, List.length_map]
  apply mkBinary_congr
  · rw [fillArgs_length, fillArgs_length, hlen]
  · rw [fillArgs_liftB, fillArgs_liftB, hz]
    rw [fillArgs_liftB] at hys
    have hnames : ∀ n, Slot.var n ∈ xs.map liftB → convBinary (.str n) = none := by
      intro n hn
      simp only [List.mem_map] at hn
      obtain ⟨s, hs, hsl⟩ := hn
      cases s with
      | val v => simp [liftB] at hsl
      | var m =>
        simp only [liftB, Slot.var.injEq] at hsl
        subst hsl
        simp only [Tmpl.wf, Bool.and_eq_true] at hw
        have := (slotsOk_mem _ _ hw.2).2 m hs
        simp [convBinary, valid_not_0b m this]
    have hvals : ∀ (l : List (Slot Nat)) a, Slot.val a ∈ l.map liftB → convBinary (canonB a) = some a := by
      intro l a ha
      simp only [List.mem_map] at ha
      obtain ⟨s, _, hsl⟩ := ha
      cases s with
      | val v => simp only [liftB, Slot.val.injEq] at hsl; subst hsl; rfl
      | var m => simp [liftB] at hsl
    exact mkSlots_compose convBinary canonB e1 e2 (xs.map liftB) ys (by rw [slotVars_map liftB (fun _ => rfl) (fun _ => ⟨_, rfl⟩)]; exact hc) (hvals xs) (hz ▸ hvals zs) hnames hys

end Secs

namespace Secs
open Sml

/-! ### whole trees -/

-- no float node anywhere (the float factory's re-reading of a stored 4-byte value is not covered)
mutual
def noFloatT : Tmpl → Bool
  | .list xs => noFloatS xs
  | .float _ _ => false
  | _ => true
def noFloatS : Slots → Bool
  | .nil => true
  | .item t r => noFloatT t && noFloatS r
  | .var _ r => noFloatS r
end

-- the table's values are closed where this template uses them: an array slot gets no variable
-- name, a list slot gets a well-formed item without variables
mutual
def closedOnT (e : Env) : Tmpl → Prop
  | .list xs => closedOnS e xs
  | .binary xs => ClosedFor convBinary e (slotVars xs)
  | .boolean xs => ClosedFor convBool e (slotVars xs)
  | .int _ xs => ClosedFor convInt e (slotVars xs)
  | .uint _ xs => ClosedFor convUint e (slotVars xs)
  | _ => True
def closedOnS (e : Env) : Slots → Prop
  | .nil => True
  | .item t r => closedOnT e t ∧ closedOnS e r
  | .var n r =>
    (∀ v, e.get? n = some v → (∀ s, v ≠ .str s) ∧ (∀ t', v = .item t' → t'.wf = true ∧ t'.vars = [])) ∧ closedOnS e r
end

/-- lookups in the non-ellipsis part of a table -/
theorem get_filter_notEll (e : Env) (n : Name) :
    Env.get? (e.filter (fun kv => !isEllKey kv)) n = if isEllipsis n then none else e.get? n := by
  induction e with
  | nil => simp [Env.get?]
  | cons kv r ih =>
    obtain ⟨k, v⟩ := kv
    have hkk : isEllKey (k, v) = isEllipsis k := rfl
    simp only [List.filter_cons, hkk]
    by_cases hk : isEllipsis k = true
    · simp only [hk, Bool.not_true, Bool.false_eq_true, if_false, Env.get?]
      rw [ih]
      by_cases hkn : (k == n) = true
      · have : k = n := by simpa using hkn
        subst this
        simp [hk]
      · simp [hkn]
    · have hk' : isEllipsis k = false := by simpa using hk
      simp only [hk', Bool.not_false, if_true, Env.get?]
      rw [ih]
      by_cases hkn : (k == n) = true
      · have : k = n := by simpa using hkn
        subst this
        simp [hk']
      · simp [hkn]

theorem closedFor_filter {α} (conv : GoVal → Option α) (e : Env) (names : List Name)
    (h : ClosedFor conv e names) : ClosedFor conv (e.filter (fun kv => !isEllKey kv)) names := by
  intro n hn s hs
  rw [get_filter_notEll] at hs
  split at hs
  · cases hs
  · exact h n hn s hs

mutual
theorem closedOnT_filter (e : Env) : ∀ t : Tmpl, closedOnT e t → closedOnT (e.filter (fun kv => !isEllKey kv)) t
  | .list xs, h => by simp only [closedOnT] at h ⊢; exact closedOnS_filter e xs h
  | .binary xs, h => by simp only [closedOnT] at h ⊢; exact closedFor_filter _ e _ h
  | .boolean xs, h => by simp only [closedOnT] at h ⊢; exact closedFor_filter _ e _ h
  | .int _ xs, h => by simp only [closedOnT] at h ⊢; exact closedFor_filter _ e _ h
  | .uint _ xs, h => by simp only [closedOnT] at h ⊢; exact closedFor_filter _ e _ h
  | .ascii _, _ => by simp only [closedOnT]
  | .asciiVar _ _ _, _ => by simp only [closedOnT]
  | .float _ _, _ => by simp only [closedOnT]
  | .empty, _ => by simp only [closedOnT]
theorem closedOnS_filter (e : Env) : ∀ xs : Slots, closedOnS e xs → closedOnS (e.filter (fun kv => !isEllKey kv)) xs
  | .nil, _ => by simp only [closedOnS]
  | .item t r, h => by
    simp only [closedOnS] at h ⊢
    exact ⟨closedOnT_filter e t h.1, closedOnS_filter e r h.2⟩
  | .var n r, h => by
    simp only [closedOnS] at h ⊢
    refine ⟨?_, closedOnS_filter e r h.2⟩
    intro v hv
    rw [get_filter_notEll] at hv
    split at hv
    · cases hv
    · exact h.1 v hv
end

theorem fill_leaf (fuel : Nat) (t : Tmpl) (e : Env) (h : t.isList = false) : fill (fuel + 1) t e = fillLeaf t e := by
  cases t <;> first | rfl | simp [Tmpl.isList] at h

theorem noEllT_leaf (t : Tmpl) (h : t.isList = false) : noEllT t = true := by
  cases t <;> first | rfl | simp [Tmpl.isList] at h

mutual
theorem noEllT_of_novars : ∀ t : Tmpl, t.vars = [] → noEllT t = true
  | .list xs, h => by simp only [noEllT]; exact noEllS_of_novars xs (by simpa [Tmpl.vars] using h)
  | .ascii _, _ => rfl
  | .asciiVar _ _ _, _ => rfl
  | .binary _, _ => rfl
  | .boolean _, _ => rfl
  | .int _ _, _ => rfl
  | .uint _ _, _ => rfl
  | .float _ _, _ => rfl
  | .empty, _ => rfl
theorem noEllS_of_novars : ∀ xs : Slots, xs.vars = [] → noEllS xs = true
  | .nil, _ => rfl
  | .var n r, h => by simp [Slots.vars] at h
  | .item t r, h => by
    have ht : t.vars = [] ∧ r.vars = [] := by
      cases t <;> simp_all [Slots.vars, Tmpl.vars]
    simp [noEllS, noEllT_of_novars t ht.1, noEllS_of_novars r ht.2]
end

theorem mkListSlots_cons (g : GoVal) (a : List GoVal) (ys : Slots) (h : mkListSlots (g :: a) = some ys) :
    (∃ t ys', g = .item t ∧ ys = .item t ys' ∧ mkListSlots a = some ys') ∨
    (∃ n ys', g = .str n ∧ ys = .var n ys' ∧ mkListSlots a = some ys') := by
  cases g <;> simp only [mkListSlots] at h <;> first | cases h | skip
  · right
    cases hr : mkListSlots a with
    | none => simp [hr] at h
    | some ys' => simp only [hr, Option.map_some, Option.some.injEq] at h; exact ⟨_, ys', rfl, h.symm, rfl⟩
  · left
    cases hr : mkListSlots a with
    | none => simp [hr] at h
    | some ys' => simp only [hr, Option.map_some, Option.some.injEq] at h; exact ⟨_, ys', rfl, h.symm, rfl⟩

end Secs

namespace Secs
open Sml

theorem compose_asciiVar (n : Name) (mn mx : Int) (e1 e2 : Env) (t1 : Tmpl)
    (h : fillLeaf (.asciiVar n mn mx) e1 = some t1) :
    t1.isList = false ∧ fillLeaf t1 e2 = fillLeaf (.asciiVar n mn mx) (e1 ++ e2) := by
  simp only [fillLeaf] at h
  cases h1 : Env.get? e1 n with
  | none =>
    simp only [h1, Option.some.injEq] at h
    subst h
    refine ⟨rfl, ?_⟩
    simp only [fillLeaf]
    rw [get_append, h1]
  | some v =>
    simp only [h1] at h
    have hget : Env.get? (e1 ++ e2) n = some v := by rw [get_append, h1]
    cases v with
    | str s =>
      simp only at h
      have hR : fillLeaf (.asciiVar n mn mx) (e1 ++ e2) = some t1 := by
        simp only [fillLeaf, hget]; exact h
      rw [hR]
      split at h
      · cases h
      · split at h
        · cases h
        · unfold mkAscii at h
          split at h
          · cases h
          · split at h
            · cases h; exact ⟨rfl, rfl⟩
            · cases h
    | _ => simp at h

theorem mkList_some (a : List GoVal) (t : Tmpl) (h : mkList a = some t) :
    ∃ ys, t = .list ys ∧ mkListSlots a = some ys := by
  unfold mkList at h
  split at h
  · cases h
  · split at h
    · cases h
    · rename_i ys hys
      split at h
      · cases h; exact ⟨ys, rfl, hys⟩
      · cases h

mutual
/-- **Filling in two steps is filling once with the union** (every nesting depth): if the first
fill is accepted, the second fill of its result is the one-step fill of the template with
`e1 ++ e2` — the same item, or the same refusal. -/
theorem compose_T : ∀ (t : Tmpl) (fuel : Nat) (e1 e2 : Env) (t1 : Tmpl),
    t.wf = true → noEllT t = true → noFloatT t = true → closedOnT e1 t →
    t.depth ≤ fuel → t1.depth ≤ fuel → fill (fuel + 1) t e1 = some t1 →
    noEllT t1 = true ∧ fill (fuel + 1) t1 e2 = fill (fuel + 1) t (e1 ++ e2)
  | .list xs, fuel, e1, e2, t1, hw, hn, hf, hc, hd, hd1, h => by
    have hx : noEllS xs = true := by simpa [noEllT] using hn
    cases fuel with
    | zero => simp [Tmpl.depth] at hd
    | succ k =>
      rw [fill_list_noEll (k + 1) xs e1 hx] at h
      cases ha : fillSlots (fun t => fill (k + 1) t (e1.filter (fun kv => !isEllKey kv))) (e1.filter (fun kv => !isEllKey kv)) xs with
      | none => simp [ha] at h
      | some a1 =>
        simp only [ha, Option.bind_some] at h
        obtain ⟨ys, rfl, hys⟩ := mkList_some a1 t1 h
        simp only [Tmpl.wf, Bool.and_eq_true] at hw
        have := compose_S xs k (e1.filter (fun kv => !isEllKey kv)) (e2.filter (fun kv => !isEllKey kv)) a1 ys
          hw.1.1.2 hx (by simpa [noFloatT] using hf) (closedOnS_filter e1 xs (by simpa [closedOnT] using hc))
          (by simp [Tmpl.depth] at hd; omega) (by simp [Tmpl.depth] at hd1; omega) ha hys
        refine ⟨by simpa [noEllT] using this.1, ?_⟩
        rw [fill_list_noEll (k + 1) ys e2 this.1, fill_list_noEll (k + 1) xs (e1 ++ e2) hx, this.2, List.filter_append]
  | .ascii s, fuel, e1, e2, t1, _, _, _, _, _, _, h => by
    simp only [fill, fillLeaf, Option.some.injEq] at h
    subst h
    exact ⟨rfl, rfl⟩
  | .empty, fuel, e1, e2, t1, _, _, _, _, _, _, h => by
    simp only [fill, fillLeaf, Option.some.injEq] at h
    subst h
    exact ⟨rfl, rfl⟩
  | .float _ _, _, _, _, _, _, _, hf, _, _, _, _ => by simp [noFloatT] at hf
  | .asciiVar n mn mx, fuel, e1, e2, t1, _, _, _, _, _, _, h => by
    rw [fill_leaf _ _ _ rfl] at h
    obtain ⟨hl, heq⟩ := compose_asciiVar n mn mx e1 e2 t1 h
    exact ⟨noEllT_leaf t1 hl, by rw [fill_leaf _ _ _ hl, fill_leaf _ _ _ rfl]; exact heq⟩
  | .binary xs, fuel, e1, e2, t1, hw, _, _, hc, _, _, h => by
    rw [fill_leaf _ _ _ rfl] at h
    obtain ⟨_, hl, heq⟩ := compose_binary xs e1 e2 t1 hw (by simpa [closedOnT] using hc) h
    exact ⟨noEllT_leaf t1 hl, by rw [fill_leaf _ _ _ hl, fill_leaf _ _ _ rfl]; exact heq⟩
  | .boolean xs, fuel, e1, e2, t1, hw, _, _, hc, _, _, h => by
    rw [fill_leaf _ _ _ rfl] at h
    obtain ⟨_, hl, heq⟩ := compose_boolean xs e1 e2 t1 hw (by simpa [closedOnT] using hc) h
    exact ⟨noEllT_leaf t1 hl, by rw [fill_leaf _ _ _ hl, fill_leaf _ _ _ rfl]; exact heq⟩
  | .int w xs, fuel, e1, e2, t1, hw, _, _, hc, _, _, h => by
    rw [fill_leaf _ _ _ rfl] at h
    obtain ⟨_, hl, heq⟩ := compose_int w xs e1 e2 t1 hw (by simpa [closedOnT] using hc) h
    exact ⟨noEllT_leaf t1 hl, by rw [fill_leaf _ _ _ hl, fill_leaf _ _ _ rfl]; exact heq⟩
  | .uint w xs, fuel, e1, e2, t1, hw, _, _, hc, _, _, h => by
    rw [fill_leaf _ _ _ rfl] at h
    obtain ⟨_, hl, heq⟩ := compose_uint w xs e1 e2 t1 hw (by simpa [closedOnT] using hc) h
    exact ⟨noEllT_leaf t1 hl, by rw [fill_leaf _ _ _ hl, fill_leaf _ _ _ rfl]; exact heq⟩
theorem compose_S : ∀ (xs : Slots) (fuel : Nat) (o1 o2 : Env) (a1 : List GoVal) (ys : Slots),
    xs.wfAll = true → noEllS xs = true → noFloatS xs = true → closedOnS o1 xs →
    xs.depth ≤ fuel → ys.depth ≤ fuel →
    fillSlots (fun t => fill (fuel + 1) t o1) o1 xs = some a1 → mkListSlots a1 = some ys →
    noEllS ys = true ∧
      fillSlots (fun t => fill (fuel + 1) t o2) o2 ys = fillSlots (fun t => fill (fuel + 1) t (o1 ++ o2)) (o1 ++ o2) xs
  | .nil, fuel, o1, o2, a1, ys, _, _, _, _, _, _, h, hm => by
    simp only [fillSlots, Option.some.injEq] at h
    subst h
    simp only [mkListSlots, Option.some.injEq] at hm
    subst hm
    exact ⟨rfl, rfl⟩
  | .var n r, fuel, o1, o2, a1, ys, hw, hn, hf, hc, hd, hd1, h, hm => by
    simp only [noEllS, Bool.and_eq_true, Bool.not_eq_true'] at hn
    simp only [closedOnS] at hc
    simp only [fillSlots] at h
    cases hr : fillSlots (fun t => fill (fuel + 1) t o1) o1 r with
    | none => simp [hr] at h
    | some a1' =>
      simp only [hr, Option.map_some, Option.some.injEq] at h
      subst h
      cases h1 : Env.get? o1 n with
      | none =>
        simp only [h1] at hm
        rcases mkListSlots_cons _ _ _ hm with ⟨t, ys', hg, _, _⟩ | ⟨m, ys', hg, rfl, hm'⟩
        · cases hg
        · cases hg
          have ih := compose_S r fuel o1 o2 a1' ys' (by simpa [Slots.wfAll] using hw) hn.2 (by simpa [noFloatS] using hf) hc.2
            (by simpa [Slots.depth] using hd) (by simpa [Slots.depth] using hd1) hr hm'
          refine ⟨by simp [noEllS, hn.1, ih.1], ?_⟩
          simp only [fillSlots, ih.2]
          rw [get_append, h1]
      | some v =>
        simp only [h1] at hm
        obtain ⟨hns, hit⟩ := hc.1 v h1
        rcases mkListSlots_cons _ _ _ hm with ⟨t', ys', hg, rfl, hm'⟩ | ⟨m, ys', hg, _, _⟩
        · subst hg
          obtain ⟨hwt, hvt⟩ := hit t' rfl
          have ih := compose_S r fuel o1 o2 a1' ys' (by simpa [Slots.wfAll] using hw) hn.2 (by simpa [noFloatS] using hf) hc.2
            (by simpa [Slots.depth] using hd) (by simp only [Slots.depth] at hd1; omega) hr hm'
          have hnt := noEllT_of_novars t' hvt
          have hid : fill (fuel + 1) t' o2 = some t' :=
            fill_identity t' fuel o2 (by simp only [Slots.depth] at hd1; omega) hwt hnt (by simp [hvt])
          refine ⟨by simp [noEllS, hnt, ih.1], ?_⟩
          simp only [fillSlots, hid, ih.2]
          rw [get_append, h1]
          cases fillSlots (fun t => fill (fuel + 1) t (o1 ++ o2)) (o1 ++ o2) r <;> rfl
        · exact absurd hg (hns m)
  | .item t r, fuel, o1, o2, a1, ys, hw, hn, hf, hc, hd, hd1, h, hm => by
    simp only [noEllS, Bool.and_eq_true] at hn
    simp only [noFloatS, Bool.and_eq_true] at hf
    simp only [Slots.wfAll, Bool.and_eq_true] at hw
    simp only [closedOnS] at hc
    simp only [Slots.depth] at hd
    simp only [fillSlots] at h
    cases ht : fill (fuel + 1) t o1 with
    | none => simp [ht] at h
    | some t1 =>
      cases hr : fillSlots (fun t => fill (fuel + 1) t o1) o1 r with
      | none => simp [ht, hr] at h
      | some a1' =>
        simp only [ht, hr, Option.some.injEq] at h
        subst h
        rcases mkListSlots_cons _ _ _ hm with ⟨t', ys', hg, rfl, hm'⟩ | ⟨m, ys', hg, _, _⟩
        · cases hg
          simp only [Slots.depth] at hd1
          have ihT := compose_T t fuel o1 o2 t1 hw.1 hn.1 hf.1 hc.1 (by omega) (by omega) ht
          have ihS := compose_S r fuel o1 o2 a1' ys' hw.2 hn.2 hf.2 hc.2 (by omega) (by omega) hr hm'
          refine ⟨by simp [noEllS, ihT.1, ihS.1], ?_⟩
          simp only [fillSlots, ihT.2, ihS.2]
        · cases hg
end

end Secs

namespace Secs

/-! ### the fuel is irrelevant once it covers the depth (ellipsis-free trees) -/
mutual
theorem fill_fuel_T : ∀ (t : Tmpl) (f1 f2 : Nat) (e : Env), noEllT t = true → t.depth ≤ f1 → t.depth ≤ f2 →
    fill (f1 + 1) t e = fill (f2 + 1) t e
  | .list xs, f1, f2, e, hn, h1, h2 => by
    have hx : noEllS xs = true := by simpa [noEllT] using hn
    cases f1 with
    | zero => simp [Tmpl.depth] at h1
    | succ k1 =>
      cases f2 with
      | zero => simp [Tmpl.depth] at h2
      | succ k2 =>
        rw [fill_list_noEll _ xs e hx, fill_list_noEll _ xs e hx,
          fill_fuel_S xs k1 k2 _ hx (by simp [Tmpl.depth] at h1; omega) (by simp [Tmpl.depth] at h2; omega)]
  | .ascii _, _, _, _, _, _, _ => rfl
  | .asciiVar _ _ _, _, _, _, _, _, _ => rfl
  | .binary _, _, _, _, _, _, _ => rfl
  | .boolean _, _, _, _, _, _, _ => rfl
  | .int _ _, _, _, _, _, _, _ => rfl
  | .uint _ _, _, _, _, _, _, _ => rfl
  | .float _ _, _, _, _, _, _, _ => rfl
  | .empty, _, _, _, _, _, _ => rfl
theorem fill_fuel_S : ∀ (xs : Slots) (f1 f2 : Nat) (o : Env), noEllS xs = true → xs.depth ≤ f1 → xs.depth ≤ f2 →
    fillSlots (fun t => fill (f1 + 1) t o) o xs = fillSlots (fun t => fill (f2 + 1) t o) o xs
  | .nil, _, _, _, _, _, _ => rfl
  | .var n r, f1, f2, o, hn, h1, h2 => by
    simp only [noEllS, Bool.and_eq_true] at hn
    simp only [fillSlots, fill_fuel_S r f1 f2 o hn.2 (by simpa [Slots.depth] using h1) (by simpa [Slots.depth] using h2)]
  | .item t r, f1, f2, o, hn, h1, h2 => by
    simp only [noEllS, Bool.and_eq_true] at hn
    simp only [Slots.depth] at h1 h2
    simp only [fillSlots, fill_fuel_T t f1 f2 o hn.1 (by omega) (by omega), fill_fuel_S r f1 f2 o hn.2 (by omega) (by omega)]
end

theorem fill_eq_Tmpl_fill (t : Tmpl) (f : Nat) (e : Env) (hn : noEllT t = true) (h : t.depth ≤ f) :
    Secs.fill (f + 1) t e = t.fill e := fill_fuel_T t f t.depth e hn h (Nat.le_refl _)

/-- **C09, composition** on `ItemNode.FillVariables` itself. -/
theorem Tmpl.fill_compose (t t1 : Tmpl) (e1 e2 : Env) (hw : t.wf = true) (hn : noEllT t = true) (hf : noFloatT t = true)
    (hc : closedOnT e1 t) (h : t.fill e1 = some t1) : t1.fill e2 = t.fill (e1 ++ e2) := by
  have h' : Secs.fill (max t.depth t1.depth + 1) t e1 = some t1 := by
    rw [fill_eq_Tmpl_fill t _ e1 hn (Nat.le_max_left _ _)]; exact h
  have := compose_T t (max t.depth t1.depth) e1 e2 t1 hw hn hf hc (Nat.le_max_left _ _) (Nat.le_max_right _ _) h'
  rw [← fill_eq_Tmpl_fill t1 _ e2 this.1 (Nat.le_max_right _ _), ← fill_eq_Tmpl_fill t _ (e1 ++ e2) hn (Nat.le_max_left _ _)]
  exact this.2

end Secs
