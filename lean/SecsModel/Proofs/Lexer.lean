/- Structural facts about the lexer model: every step consumes input, so the token stream is
complete with `input.length + 1` steps; positions. -/
import SecsModel.Model.Lexer
namespace Secs
namespace Lex

theorem advanceN_rest (n : Nat) : ∀ p : Pos, (advanceN p n).rest = p.rest.drop n := by
  induction n with
  | zero => intro p; simp [advanceN]
  | succ n ih =>
    intro p
    cases hp : p.rest with
    | nil => simp [advanceN, hp]
    | cons x xs =>
      simp only [advanceN, hp]
      split <;> simp [ih]

theorem advance_rest (bs : Bytes) (p : Pos) : (advance p bs).rest = p.rest.drop bs.length :=
  advanceN_rest _ p

theorem advance_length (p : Pos) (bs : Bytes) : (advance p bs).rest.length = p.rest.length - bs.length := by
  rw [advance_rest, List.length_drop]

theorem skipWs_le (m : Mode) : ∀ (fuel : Nat) (p : Pos), (skipWs m fuel p).rest.length ≤ p.rest.length := by
  intro fuel
  induction fuel with
  | zero => intro p; simp [skipWs]
  | succ n ih =>
    intro p
    rw [skipWs]
    cases hp : p.rest with
    | nil => simp [hp]
    | cons b r =>
      simp only
      have h1 : (advance p [b]).rest.length ≤ (b :: r).length := by
        rw [advance_length, hp]; simp
      split
      · exact Nat.le_trans (ih _) h1
      · cases m with
        | text => simp [hp]
        | header =>
          simp only
          split
          · split
            · exact Nat.le_trans (ih _) h1
            · simp [hp]
          · split
            · have : (advance p (List.take (Utf8.decodeRune (b :: r)).2 (b :: r))).rest.length ≤ (b :: r).length := by
                rw [advance_length, hp]; omega
              exact Nat.le_trans (ih _) this
            · simp [hp]

/-- emitting a non-empty token from a non-empty input strictly shortens the input -/
theorem emit_decreases (k : Kind) (v raw : Bytes) (m : Mode) (p : Pos) (t : Tok) (m' : Mode) (p' : Pos)
    (h : emit k v raw m p = .tok t m' p') (hraw : raw ≠ []) (hrest : p.rest ≠ []) :
    p'.rest.length < p.rest.length := by
  simp only [emit, Step.tok.injEq] at h
  rw [← h.2.2, advance_length]
  have h1 : 0 < raw.length := List.length_pos_iff.mpr hraw
  have h2 : 0 < p.rest.length := List.length_pos_iff.mpr hrest
  omega

theorem dropWhile_snoc_ne_nil (pr : Nat → Bool) (a : Nat) (ha : pr a = false) :
    ∀ l : Bytes, (l ++ [a]).dropWhile pr ≠ []
  | [] => by simp [List.dropWhile, ha]
  | x :: l => by
    simp only [List.cons_append, List.dropWhile]
    split
    · exact dropWhile_snoc_ne_nil pr a ha l
    · simp

theorem trimRight_cons_ne_nil (pr : Nat → Bool) (a : Nat) (r : Bytes) (ha : pr a = false) :
    trimRight pr (a :: r) ≠ [] := by
  unfold trimRight
  intro h
  have h2 := congrArg List.reverse h
  simp only [List.reverse_reverse, List.reverse_nil, List.reverse_cons] at h2
  exact dropWhile_snoc_ne_nil pr a ha r.reverse h2

theorem scanComment_ne_nil (s : Bytes) (h : startsWith [47, 47] s = true) : (scanComment s).1 ≠ [] := by
  match s, h with
  | 47 :: 47 :: r, _ =>
    unfold scanComment
    have hs : spanB (· != 10) (47 :: 47 :: r) = (47 :: 47 :: (spanB (· != 10) r).1, (spanB (· != 10) r).2) := by
      simp [spanB]
    rw [hs]
    simp only
    split
    · simp
    · exact trimRight_cons_ne_nil _ 47 _ (by decide)

end Lex
end Secs

namespace Secs
namespace Lex

theorem matchSF_ne_nil (s v : Bytes) (h : matchSF s = some v) : v ≠ [] := by
  unfold matchSF at h
  repeat' (split at h)
  all_goals (first | (cases h; simp) | cases h)

theorem matchW_ne_nil (s v : Bytes) (h : matchW s = some v) : v ≠ [] := by
  unfold matchW at h
  repeat' (split at h)
  all_goals (first | (cases h; simp) | cases h)

theorem matchDir_ne_nil (s v : Bytes) (h : matchDir s = some v) : v ≠ [] := by
  unfold matchDir at h
  repeat' (split at h)
  all_goals (first | (cases h; simp) | cases h)

theorem matchEllipsis_ne_nil (s v : Bytes) (h : matchEllipsis s = some v) : v ≠ [] := by
  unfold matchEllipsis at h
  repeat' (split at h)
  all_goals (first | (cases h; simp) | cases h)

theorem matchWord_ne_nil (s v : Bytes) (h : matchWord s = some v) : v ≠ [] := by
  unfold matchWord at h
  repeat' (split at h)
  all_goals (first | (cases h; simp) | cases h)

theorem scanSize_ne_nil (s raw : Bytes) (h : scanSize s = some raw) : raw ≠ [] := by
  unfold scanSize at h
  split at h
  · cases hb : scanSizeBody ‹Bytes› with
    | none => simp [hb] at h
    | some body => simp [hb] at h; rw [← h]; simp
  · cases h

theorem scanQuoted_ne_nil (s raw : Bytes) (h : scanQuoted s = some raw) : raw ≠ [] := by
  unfold scanQuoted at h
  repeat' (split at h)
  all_goals (first | (cases h; simp) | cases h)

end Lex
end Secs

namespace Secs
namespace Lex

theorem spanB_cons_true (p : Nat → Bool) (b : Nat) (r : Bytes) (h : p b = true) :
    spanB p (b :: r) = (b :: (spanB p r).1, (spanB p r).2) := by
  simp [spanB, h]

theorem scanNumber_ne_nil' (b : Nat) (r : Bytes)
    (h : (b == 43 || b == 45 || isDigitB b || (b == 46 && (match r with | c :: _ => isDigitB c | [] => false))) = true) :
    scanNumber (b :: r) ≠ [] := by
  have hb : b = 43 ∨ b = 45 ∨ b = 46 ∨ b = 48 ∨ b = 49 ∨ b = 50 ∨ b = 51 ∨ b = 52 ∨ b = 53 ∨ b = 54 ∨ b = 55 ∨ b = 56 ∨ b = 57 := by
    simp [isDigitB] at h
    omega
  rcases hb with hb | hb | hb | hb | hb | hb | hb | hb | hb | hb | hb | hb | hb <;> subst hb
  · simp [scanNumber]
  · simp [scanNumber]
  · simp [scanNumber, spanB, isDigitB]
  · simp only [scanNumber]
    split <;> simp
  all_goals simp [scanNumber, spanB, isDigitB]

theorem scanNumber_ne_nil (s : Bytes) (h : startsNumber s = true) : scanNumber s ≠ [] := by
  cases s with
  | nil => simp [startsNumber] at h
  | cons b r => exact scanNumber_ne_nil' b r h

end Lex
end Secs

namespace Secs
namespace Lex

theorem take_ne_nil (s : Bytes) (w : Nat) (hs : s ≠ []) (hw : 1 ≤ w) : s.take w ≠ [] := by
  cases s with
  | nil => exact absurd rfl hs
  | cons a r => cases w with
    | zero => omega
    | succ n => simp

/-- a header step that emits a token consumes at least one byte -/
theorem stepHeader_decreases (p : Pos) (t : Tok) (m' : Mode) (p' : Pos)
    (h : stepHeader p = .tok t m' p') : p'.rest.length < p.rest.length := by
  unfold stepHeader at h
  dsimp only at h
  split at h
  · cases h
  · rename_i b r hs
    have hne : p.rest ≠ [] := by rw [hs]; simp
    split at h
    · rename_i hc
      exact emit_decreases _ _ _ _ _ _ _ _ h (scanComment_ne_nil _ hc) hne
    · split at h
      · rename_i v hv
        exact emit_decreases _ _ _ _ _ _ _ _ h (matchSF_ne_nil _ _ hv) hne
      · split at h
        · rename_i v hv
          exact emit_decreases _ _ _ _ _ _ _ _ h (matchW_ne_nil _ _ hv) hne
        · split at h
          · rename_i v hv
            exact emit_decreases _ _ _ _ _ _ _ _ h (matchDir_ne_nil _ _ hv) hne
          · split at h
            · exact emit_decreases _ _ _ _ _ _ _ _ h (by simp) hne
            · split at h
              · exact emit_decreases _ _ _ _ _ _ _ _ h (by simp) hne
              · refine emit_decreases _ _ _ _ _ _ _ _ h ?_ hne
                intro hnil
                have := List.append_eq_nil_iff.mp hnil
                exact take_ne_nil p.rest _ hne (Nat.le_max_right _ 1) this.1

/-- a text step that emits a token consumes at least one byte -/
theorem stepText_decreases (ual : List Nat) (p : Pos) (t : Tok) (m' : Mode) (p' : Pos)
    (h : stepText ual p = .tok t m' p') : p'.rest.length < p.rest.length := by
  unfold stepText at h
  dsimp only at h
  split at h
  · cases h
  · rename_i b r hs
    have hne : p.rest ≠ [] := by rw [hs]; simp
    split at h
    · rename_i hc
      exact emit_decreases _ _ _ _ _ _ _ _ h (scanComment_ne_nil _ hc) hne
    · split at h
      · rename_i v hv
        exact emit_decreases _ _ _ _ _ _ _ _ h (matchEllipsis_ne_nil _ _ hv) hne
      · split at h
        · rename_i w hw
          have hwne := matchWord_ne_nil _ _ hw
          split at h
          · exact emit_decreases _ _ _ _ _ _ _ _ h hwne hne
          · split at h
            · exact emit_decreases _ _ _ _ _ _ _ _ h hwne hne
            · refine emit_decreases _ _ _ _ _ _ _ _ h ?_ hne
              intro hnil
              exact hwne (List.append_eq_nil_iff.mp hnil).1
        · split at h
          · rename_i hnum
            split at h
            · cases h
            · exact emit_decreases _ _ _ _ _ _ _ _ h (scanNumber_ne_nil _ hnum) hne
          · split at h
            · exact emit_decreases _ _ _ _ _ _ _ _ h (by simp) hne
            · split at h
              · exact emit_decreases _ _ _ _ _ _ _ _ h (by simp) hne
              · split at h
                · exact emit_decreases _ _ _ _ _ _ _ _ h (by simp) hne
                · split at h
                  · split at h
                    · rename_i raw hraw
                      exact emit_decreases _ _ _ _ _ _ _ _ h (scanSize_ne_nil _ _ hraw) hne
                    · cases h
                  · split at h
                    · split at h
                      · rename_i raw hraw
                        exact emit_decreases _ _ _ _ _ _ _ _ h (scanQuoted_ne_nil _ _ hraw) hne
                      · cases h
                    · cases h

/-- every step that emits a non-terminal token strictly shortens the unread input -/
theorem lexStep_decreases (ual : List Nat) (m : Mode) (p : Pos) (t : Tok) (m' : Mode) (p' : Pos)
    (h : lexStep ual m p = .tok t m' p') : p'.rest.length < p.rest.length := by
  unfold lexStep at h
  have hle := skipWs_le m p.rest.length p
  cases m with
  | header => exact Nat.lt_of_lt_of_le (stepHeader_decreases _ _ _ _ h) hle
  | text => exact Nat.lt_of_lt_of_le (stepText_decreases ual _ _ _ _ h) hle

/-- more fuel than unread bytes changes nothing: the fuel of `lexAll` is never the reason the
token stream stops -/
theorem lexFuel_stable (ual : List Nat) : ∀ (fuel : Nat) (m : Mode) (p : Pos) (k : Nat),
    p.rest.length < fuel → lexFuel ual (fuel + k) m p = lexFuel ual fuel m p := by
  intro fuel
  induction fuel with
  | zero => intro m p k h; omega
  | succ n ih =>
    intro m p k h
    have : n + 1 + k = (n + k) + 1 := by omega
    rw [this, lexFuel, lexFuel]
    cases hs : lexStep ual m p with
    | last t => rfl
    | tok t m' p' =>
      simp only
      have hd := lexStep_decreases ual m p t m' p' hs
      rw [ih m' p' k (by omega)]

/-- the kinds a terminal token has -/
def Tok.terminal (t : Tok) : Bool := t.kind == .eof || t.kind == .error

theorem emit_not_terminal (k : Kind) (v raw : Bytes) (m : Mode) (p : Pos) (t : Tok) (m' : Mode) (p' : Pos)
    (h : emit k v raw m p = .tok t m' p') : t.kind = k := by
  simp only [emit, Step.tok.injEq] at h
  rw [← h.1]; rfl

end Lex
end Secs

namespace Secs
namespace Lex

/-! ### positions -/

/-- the bytes of the current line in front of offset `pre.length` (reversed) -/
def lineRev (pre : Bytes) : Bytes := pre.reverse.takeWhile (· != 10)

/-- `p` is the lexer position reached after reading the prefix `pre` of `input` -/
def PosInv (input : Bytes) (p : Pos) : Prop :=
  ∃ pre, input = pre ++ p.rest ∧ p.line = 1 + pre.count 10 ∧ p.revLine = lineRev pre

/-- the token is stamped with the true position of some offset of `input`: line = 1 + the line
feeds in front of it, col = 1 + the runes between the start of that line and the offset -/
def TokAt (input : Bytes) (t : Tok) : Prop :=
  ∃ pre suf, input = pre ++ suf ∧ t.line = 1 + pre.count 10 ∧
    t.col = 1 + (Utf8.runes (lineRev pre).reverse).length

theorem posInv_init (input : Bytes) : PosInv input ⟨input, 1, []⟩ :=
  ⟨[], by simp, by simp, by simp [lineRev]⟩

theorem lineRev_snoc (pre : Bytes) (b : Nat) :
    lineRev (pre ++ [b]) = if b == 10 then [] else b :: lineRev pre := by
  unfold lineRev
  simp only [List.reverse_append, List.reverse_cons, List.reverse_nil, List.nil_append, List.cons_append,
    List.takeWhile]
  by_cases h : b = 10
  · subst h; simp
  · have : (b != 10) = true := by simp [h]
    simp [this, h]

theorem advanceN_inv (input : Bytes) (n : Nat) : ∀ p : Pos, PosInv input p → PosInv input (advanceN p n) := by
  induction n with
  | zero => intro p h; simpa [advanceN] using h
  | succ n ih =>
    intro p ⟨pre, h1, h2, h3⟩
    cases hp : p.rest with
    | nil => simp only [advanceN, hp]; exact ⟨pre, h1, h2, h3⟩
    | cons b r =>
      simp only [advanceN, hp]
      have hin : input = (pre ++ [b]) ++ r := by rw [h1, hp]; simp
      split
      · rename_i hb
        have hb' : b = 10 := by simpa using hb
        apply ih
        refine ⟨pre ++ [b], hin, ?_, ?_⟩
        · simp [h2, hb', List.count_append]; omega
        · simp [lineRev_snoc, hb']
      · rename_i hb
        have hb' : b ≠ 10 := by simpa using hb
        apply ih
        refine ⟨pre ++ [b], hin, ?_, ?_⟩
        · simp [h2, List.count_append, hb']
        · simp [lineRev_snoc, hb', h3]

theorem advance_inv (input : Bytes) (p : Pos) (bs : Bytes) (h : PosInv input p) : PosInv input (advance p bs) :=
  advanceN_inv input _ p h

theorem skipWs_inv (input : Bytes) (m : Mode) : ∀ (fuel : Nat) (p : Pos), PosInv input p → PosInv input (skipWs m fuel p) := by
  intro fuel
  induction fuel with
  | zero => intro p h; simpa [skipWs] using h
  | succ n ih =>
    intro p h
    rw [skipWs]
    split
    · exact h
    · split
      · exact ih _ (advance_inv _ _ _ h)
      · cases m with
        | text => exact h
        | header =>
          dsimp only
          split
          · split
            · exact ih _ (advance_inv _ _ _ h)
            · exact h
          · split
            · exact ih _ (advance_inv _ _ _ h)
            · exact h

theorem tokAt_of_inv (input : Bytes) (p : Pos) (t : Tok) (h : PosInv input p)
    (hl : t.line = p.line) (hc : t.col = p.col) : TokAt input t := by
  obtain ⟨pre, h1, h2, h3⟩ := h
  exact ⟨pre, p.rest, h1, by rw [hl, h2], by rw [hc, Pos.col, h3]⟩

/-- what one step can be: an emitted non-terminal token stamped with the current position, or
a terminal token (EOF or error) stamped with the current position -/
def StepShape (p : Pos) (s : Step) : Prop :=
  (∃ k v raw m, s = emit k v raw m p ∧ k ≠ .eof ∧ k ≠ .error) ∨
  (∃ t, s = .last t ∧ t.line = p.line ∧ t.col = p.col ∧ (t.kind = .eof ∨ t.kind = .error))

theorem stepHeader_shape (p : Pos) : StepShape p (stepHeader p) := by
  unfold stepHeader
  dsimp only
  repeat' split
  all_goals first
    | exact Or.inl ⟨_, _, _, _, rfl, by decide, by decide⟩
    | exact Or.inr ⟨_, rfl, rfl, rfl, by simp [mkTok, mkErr]⟩

theorem stepText_shape (ual : List Nat) (p : Pos) : StepShape p (stepText ual p) := by
  unfold stepText
  dsimp only
  repeat' split
  all_goals first
    | exact Or.inl ⟨_, _, _, _, rfl, by decide, by decide⟩
    | exact Or.inr ⟨_, rfl, rfl, rfl, by simp [mkTok, mkErr]⟩

theorem lexStep_shape (ual : List Nat) (m : Mode) (p : Pos) :
    StepShape (skipWs m p.rest.length p) (lexStep ual m p) := by
  unfold lexStep
  cases m with
  | header => exact stepHeader_shape _
  | text => exact stepText_shape ual _

/-- C06: every token, error tokens included, carries the true line and column of an offset of
the input -/
theorem lexFuel_positions (ual : List Nat) (input : Bytes) : ∀ (fuel : Nat) (m : Mode) (p : Pos),
    PosInv input p → ∀ t ∈ lexFuel ual fuel m p, TokAt input t := by
  intro fuel
  induction fuel with
  | zero => intro m p _ t ht; simp [lexFuel] at ht
  | succ n ih =>
    intro m p hp t ht
    have hq := skipWs_inv input m p.rest.length p hp
    rw [lexFuel] at ht
    rcases lexStep_shape ual m p with ⟨k, v, raw, m', hs, _, _⟩ | ⟨t', hs, hl, hc, _⟩
    · rw [hs] at ht
      simp only [emit, List.mem_cons] at ht
      rcases ht with ht | ht
      · subst ht
        exact tokAt_of_inv input _ _ hq rfl rfl
      · exact ih m' _ (advance_inv _ _ _ hq) t ht
    · rw [hs] at ht
      simp only [List.mem_singleton] at ht
      subst ht
      exact tokAt_of_inv input _ _ hq hl hc

theorem lexAll_positions (ual : List Nat) (input : Bytes) : ∀ t ∈ lexAll ual input, TokAt input t :=
  lexFuel_positions ual input _ _ _ (posInv_init input)

/-- with enough fuel the stream is a run of non-terminal tokens closed by exactly one terminal
token (EOF or a lexing error) -/
theorem lexFuel_terminal (ual : List Nat) : ∀ (fuel : Nat) (m : Mode) (p : Pos), p.rest.length < fuel →
    ∃ ts t, lexFuel ual fuel m p = ts ++ [t] ∧ (t.kind = .eof ∨ t.kind = .error) ∧
      ∀ x ∈ ts, x.kind ≠ .eof ∧ x.kind ≠ .error := by
  intro fuel
  induction fuel with
  | zero => intro m p h; omega
  | succ n ih =>
    intro m p h
    rw [lexFuel]
    rcases lexStep_shape ual m p with ⟨k, v, raw, m', hs, hk1, hk2⟩ | ⟨t', hs, _, _, hterm⟩
    · have hd := lexStep_decreases ual m p _ _ _ (by rw [hs]; rfl)
      rw [hs]
      simp only [emit]
      obtain ⟨ts, t, h1, h2, h3⟩ := ih m' (advance (skipWs m p.rest.length p) raw) (by omega)
      refine ⟨mkTok k v (skipWs m p.rest.length p) :: ts, t, by rw [h1]; rfl, h2, ?_⟩
      intro x hx
      simp only [List.mem_cons] at hx
      rcases hx with hx | hx
      · subst hx; exact ⟨hk1, hk2⟩
      · exact h3 x hx
    · rw [hs]
      exact ⟨[], t', rfl, hterm, by simp⟩

theorem lexAll_terminal (ual : List Nat) (input : Bytes) :
    ∃ ts t, lexAll ual input = ts ++ [t] ∧ (t.kind = .eof ∨ t.kind = .error) ∧
      ∀ x ∈ ts, x.kind ≠ .eof ∧ x.kind ≠ .error :=
  lexFuel_terminal ual _ _ _ (by simp)

end Lex
end Secs
