/-
Lexer locality, part 3: one step and the whole stream. For a text `x` that ends with a line feed
and is lexed without a lexing error, the tokens of `x ++ b` are the tokens of `x` (without the
end-of-input token) followed by the tokens of `b` lexed in the mode in which `x` ends — positions
aside (`lexFrom_concat`).
-/
import SecsModel.Proofs.LexScan
namespace Secs
namespace Lex
open Utf8

theorem txtScan_lf (ual : List Nat) (c : Nat) (r b : Bytes) (h : EndsLF (c :: r)) (hc : c ≠ 10)
    (k : Kind) (v raw : Bytes) (m : Mode) (ht : txtScan ual (c :: r) = .tok k v raw m) :
    txtScan ual (c :: r ++ b) = .tok k v raw m ∧ raw.length < (c :: r).length ∧ raw ≠ [] ∧ m = nextMode .text k := by
  have e1 : startsWith [47, 47] (c :: (r ++ b)) = startsWith [47, 47] (c :: r) := startsWith_comment_lf (c :: r) b h
  have e2 : scanComment (c :: (r ++ b)) = scanComment (c :: r) := (scanComment_lf (c :: r) b h).1
  obtain ⟨e3, l3⟩ := matchEllipsis_lf (c :: r) b h
  obtain ⟨e4, l4⟩ := matchWord_lf (c :: r) b h
  have e5 : startsNumber (c :: (r ++ b)) = startsNumber (c :: r) := startsNumber_lf (c :: r) b h
  obtain ⟨e6, l6⟩ := scanNumber_lf (c :: r) b h
  simp only [List.cons_append] at e3 e4 e6
  have hlen : 1 < (c :: r).length := by
    have := (h.cons_ne hc).length_pos; simp; omega
  unfold txtScan at ht ⊢
  simp only [List.cons_append, e1, e2, e3, e4, e5, e6] at ht ⊢
  by_cases h1 : startsWith [47, 47] (c :: r) = true
  · simp only [h1, if_true] at ht ⊢
    cases ht
    exact ⟨rfl, scanComment_len _ h, scanComment_ne_nil _ h1, rfl⟩
  · simp only [h1, Bool.false_eq_true, if_false] at ht ⊢
    cases h2 : matchEllipsis (c :: r) with
    | some ve =>
      rw [h2] at ht
      simp only at ht ⊢
      cases ht
      exact ⟨rfl, l3 _ h2, matchEllipsis_ne_nil _ _ h2, rfl⟩
    | none =>
      rw [h2] at ht
      simp only at ht ⊢
      cases h3 : matchWord (c :: r) with
      | some w =>
        rw [h3] at ht
        simp only at ht ⊢
        have hwl := l4 w h3
        have hwne := matchWord_ne_nil _ _ h3
        by_cases h4 : typeKeywords.contains (upper w) = true
        · simp only [h4, if_true] at ht ⊢
          cases ht
          exact ⟨rfl, hwl, hwne, rfl⟩
        · simp only [h4, Bool.false_eq_true, if_false] at ht ⊢
          by_cases h5 : boolKeywords.contains (upper w) = true
          · simp only [h5, if_true] at ht ⊢
            cases ht
            exact ⟨rfl, hwl, hwne, rfl⟩
          · simp only [h5, Bool.false_eq_true, if_false] at ht ⊢
            have hd : EndsLF ((c :: r).drop w.length) := h.drop _ hwl
            have hda : (c :: (r ++ b)).drop w.length = (c :: r).drop w.length ++ b :=
              List.drop_append_of_le_length (l₁ := c :: r) (by omega)
            obtain ⟨i1, i2⟩ := matchIdxs_lf b (c :: r).length _ (by simp) hd (c :: (r ++ b)).length (by
              rw [← hda]; simp)
            have hfl : (c :: (r ++ b)).length = r.length + b.length + 1 := by simp
            simp only [List.length_cons, List.length_append] at i1 hfl
            rw [hda]
            simp only [List.length_cons, List.length_append, i1]
            cases ht
            refine ⟨rfl, ?_, ?_, rfl⟩
            · simp only [List.length_append, List.length_drop, List.length_cons] at i2 ⊢
              omega
            · intro hnil
              exact hwne (List.append_eq_nil_iff.mp hnil).1
      | none =>
        rw [h3] at ht
        simp only at ht ⊢
        by_cases h6 : startsNumber (c :: r) = true
        · simp only [h6, if_true] at ht ⊢
          have hd : EndsLF ((c :: r).drop (scanNumber (c :: r)).length) := h.drop _ l6
          have hda : (c :: (r ++ b)).drop (scanNumber (c :: r)).length = (c :: r).drop (scanNumber (c :: r)).length ++ b :=
            List.drop_append_of_le_length (l₁ := c :: r) (by omega)
          rw [hda, nextIsAlnum_lf ual _ b hd]
          by_cases h7 : nextIsAlnum ual ((c :: r).drop (scanNumber (c :: r)).length) = true
          · simp only [h7, if_true] at ht
            cases ht
          · simp only [h7, Bool.false_eq_true, if_false] at ht ⊢
            cases ht
            exact ⟨rfl, l6, scanNumber_ne_nil _ h6, rfl⟩
        · simp only [h6, Bool.false_eq_true, if_false] at ht ⊢
          by_cases h8 : (c == 60) = true
          · simp only [h8, if_true] at ht ⊢
            cases ht
            exact ⟨rfl, by simpa using hlen, by simp, rfl⟩
          · simp only [h8, Bool.false_eq_true, if_false] at ht ⊢
            by_cases h9 : (c == 62) = true
            · simp only [h9, if_true] at ht ⊢
              cases ht
              exact ⟨rfl, by simpa using hlen, by simp, rfl⟩
            · simp only [h9, Bool.false_eq_true, if_false] at ht ⊢
              by_cases h10 : (c == 46) = true
              · simp only [h10, if_true] at ht ⊢
                cases ht
                exact ⟨rfl, by simpa using hlen, by simp, rfl⟩
              · simp only [h10, Bool.false_eq_true, if_false] at ht ⊢
                by_cases h11 : (c == 91) = true
                · simp only [h11, if_true] at ht ⊢
                  cases h12 : scanSize (c :: r) with
                  | none => rw [h12] at ht; cases ht
                  | some rw' =>
                    rw [h12] at ht
                    have := scanSize_mono (c :: r) b rw' h12
                    simp only [List.cons_append] at this
                    rw [this]
                    simp only at ht ⊢
                    cases ht
                    exact ⟨rfl, scanSize_len _ _ h h12, scanSize_ne_nil _ _ h12, rfl⟩
                · simp only [h11, Bool.false_eq_true, if_false] at ht ⊢
                  by_cases h13 : (c == 34) = true
                  · simp only [h13, if_true] at ht ⊢
                    cases h14 : scanQuoted (c :: r) with
                    | none => rw [h14] at ht; cases ht
                    | some rw' =>
                      rw [h14] at ht
                      have := scanQuoted_mono (c :: r) b rw' h14
                      simp only [List.cons_append] at this
                      rw [this]
                      simp only at ht ⊢
                      cases ht
                      exact ⟨rfl, scanQuoted_len _ _ h h14, scanQuoted_ne_nil _ _ h14, rfl⟩
                  · simp only [h13, Bool.false_eq_true, if_false] at ht
                    cases ht

/-! ### one step, as a function of the unread input -/

def eofTok : Tok := ⟨.eof, [69, 79, 70], 0, 0, none⟩

def scanSig (ual : List Nat) (m : Mode) (y : Bytes) : Tok × Option (Mode × Bytes) :=
  match m with
  | .header =>
    match hdrScan y with
    | none => (eofTok, none)
    | some (k, v, raw, m') => (⟨k, v, 0, 0, none⟩, some (m', y.drop raw.length))
  | .text =>
    match txtScan ual y with
    | .eof => (eofTok, none)
    | .err e => (⟨.error, [], 0, 0, some e⟩, none)
    | .tok k v raw m' => (⟨k, v, 0, 0, none⟩, some (m', y.drop raw.length))

theorem lexStep_scanSig (ual : List Nat) (m : Mode) (p : Pos) :
    (lexStep ual m p).sig = scanSig ual m (skipR m p.rest) := by
  unfold lexStep scanSig
  have hr := skipWs_rest_skipR m p.rest.length p (Nat.le_refl _)
  cases m with
  | header =>
    simp only
    rw [stepHeader_scan, hr]
    cases hdrScan (skipR .header p.rest) with
    | none => exact last_tok_sig _ _ _
    | some q =>
      obtain ⟨k, v, raw, m'⟩ := q
      simp only
      rw [emit_sig, hr]
  | text =>
    simp only
    rw [stepText_scan, hr]
    cases txtScan ual (skipR .text p.rest) with
    | eof => exact last_tok_sig _ _ _
    | err e => exact last_err_sig _ _
    | tok k v raw m' =>
      simp only
      rw [emit_sig, hr]

/-- the stream, one step at a time, positions aside -/
theorem lexFrom_unfold (ual : List Nat) (m : Mode) (x : Bytes) :
    (lexFrom ual m x).map eraseT =
      match scanSig ual m (skipR m x) with
      | (t, none) => [t]
      | (t, some (m', r)) => t :: (lexFrom ual m' r).map eraseT := by
  have hs := lexStep_scanSig ual m ⟨x, 1, []⟩
  simp only at hs
  rw [← hs]
  cases hstep : lexStep ual m ⟨x, 1, []⟩ with
  | tok t m' q => rw [lexFrom_tok ual m m' x t q hstep]; rfl
  | last t => rw [lexFrom_last ual m x t hstep]; rfl

theorem skipR_length_le (m : Mode) (x : Bytes) : (skipR m x).length ≤ x.length :=
  skipWs_le m x.length ⟨x, 0, []⟩

/-- where skipping stops there is no line feed -/
theorem skipR_head (m : Mode) : ∀ (n : Nat) (x : Bytes), x.length ≤ n → ∀ c r, skipR m x = c :: r → c ≠ 10
  | 0, x, hn, c, r, h => by
    cases x with
    | nil => simp [skipR_nil] at h
    | cons d x' => simp at hn
  | n + 1, [], _, c, r, h => by simp [skipR_nil] at h
  | n + 1, d :: x', hn, c, r, h => by
    have hx' : x'.length ≤ n := by simp at hn; omega
    rw [skipR_cons] at h
    by_cases hb : isBlank d = true
    · simp only [hb, if_true] at h
      exact skipR_head m n x' hx' c r h
    · simp only [hb, Bool.false_eq_true, if_false] at h
      have hd10 : d ≠ 10 := by intro h10; subst h10; simp [isBlank] at hb
      cases m with
      | text => simp only at h; injection h with h1 _; exact h1 ▸ hd10
      | header =>
        simp only at h
        by_cases hc : d < 128
        · simp only [hc, if_true] at h
          by_cases hs : Utf8.isSpace d = true
          · simp only [hs, if_true] at h
            exact skipR_head .header n x' hx' c r h
          · simp only [hs, Bool.false_eq_true, if_false] at h
            injection h with h1 _; exact h1 ▸ hd10
        · simp only [hc, if_false] at h
          by_cases hs : Utf8.isSpace (Utf8.decodeRune (d :: x')).1 = true
          · simp only [hs, if_true] at h
            have hw := decodeRune_width_pos d x'
            exact skipR_head .header n _ (by simp only [List.length_drop, List.length_cons]; omega) c r h
          · simp only [hs, Bool.false_eq_true, if_false] at h
            injection h with h1 _; exact h1 ▸ hd10

theorem hdrScan_kind (y : Bytes) (k : Kind) (v raw : Bytes) (m : Mode) (h : hdrScan y = some (k, v, raw, m)) :
    k ≠ .eof ∧ k ≠ .error := by
  unfold hdrScan at h
  repeat' split at h
  all_goals first | (cases h; done) | (injection h with h; injection h with h1 _; subst h1; exact ⟨by decide, by decide⟩)

theorem txtScan_kind (ual : List Nat) (y : Bytes) (k : Kind) (v raw : Bytes) (m : Mode) (h : txtScan ual y = .tok k v raw m) :
    k ≠ .eof ∧ k ≠ .error := by
  unfold txtScan at h
  repeat' split at h
  all_goals first | (cases h; done) | (injection h with h1 _; subst h1; exact ⟨by decide, by decide⟩)

theorem txtScan_cons_ne_eof (ual : List Nat) (c : Nat) (r : Bytes) : txtScan ual (c :: r) ≠ .eof := by
  unfold txtScan
  repeat' split
  all_goals simp_all

/-- the mode in which the lexer stands after the tokens `ts` -/
def modeOf (m : Mode) (ts : List Tok) : Mode := ts.foldl (fun m t => nextMode m t.kind) m

theorem modeOf_cons (m : Mode) (t : Tok) (ts : List Tok) : modeOf m (t :: ts) = modeOf (nextMode m t.kind) ts := rfl

theorem scanSig_nil (ual : List Nat) (m : Mode) : scanSig ual m [] = (eofTok, none) := by
  cases m <;> rfl

/-- **Lexer locality.** `x` ends with a line feed and is lexed (from mode `m`) without a lexing
error. Then its tokens are `ts` and the end-of-input token, and the tokens of `x ++ b` are `ts`
followed by the tokens of `b`, lexed in the mode in which `ts` leaves the lexer. -/
theorem lexFrom_concat (ual : List Nat) (b : Bytes) : ∀ (n : Nat) (x : Bytes) (m : Mode), x.length ≤ n → EndsLF x →
    (∀ t ∈ (lexFrom ual m x).map eraseT, t.kind ≠ .error) →
    ∃ ts, (lexFrom ual m x).map eraseT = ts ++ [eofTok] ∧
      (lexFrom ual m (x ++ b)).map eraseT = ts ++ (lexFrom ual (modeOf m ts) b).map eraseT ∧
      (∀ t ∈ ts, t.kind ≠ .eof ∧ t.kind ≠ .error)
  | 0, x, m, hn, h, _ => by have := h.length_pos; omega
  | n + 1, x, m, hn, h, hne => by
    rw [lexFrom_unfold] at hne
    rw [lexFrom_unfold ual m x, lexFrom_unfold ual m (x ++ b)]
    obtain ⟨hs1, hs2⟩ := skipR_lf m b x.length x (Nat.le_refl _) h
    cases hy : skipR m x with
    | nil =>
      rw [hs2 hy, scanSig_nil]
      refine ⟨[], rfl, ?_, by simp⟩
      simp only [List.nil_append, modeOf, List.foldl_nil]
      exact (lexFrom_unfold ual m b).symm
    | cons c r =>
      have hyne : skipR m x ≠ [] := by rw [hy]; simp
      obtain ⟨e1, e2⟩ := hs1 hyne
      rw [hy] at e1 e2 hne
      rw [e1]
      have hc : c ≠ 10 := skipR_head m x.length x (Nat.le_refl _) c r hy
      have hyl : (c :: r).length ≤ x.length := by rw [← hy]; exact skipR_length_le m x
      -- what the step on `c :: r` is
      have key : ∀ (k : Kind) (v raw : Bytes) (m' : Mode),
          scanSig ual m (c :: r) = (⟨k, v, 0, 0, none⟩, some (m', (c :: r).drop raw.length)) →
          scanSig ual m (c :: r ++ b) = (⟨k, v, 0, 0, none⟩, some (m', (c :: r).drop raw.length ++ b)) →
          raw.length < (c :: r).length → raw ≠ [] → m' = nextMode m k → k ≠ .eof →
          ∃ ts, (match scanSig ual m (c :: r) with
              | (t, none) => [t]
              | (t, some (m', r)) => t :: (lexFrom ual m' r).map eraseT) = ts ++ [eofTok] ∧
            (match scanSig ual m (c :: r ++ b) with
              | (t, none) => [t]
              | (t, some (m', r)) => t :: (lexFrom ual m' r).map eraseT) = ts ++ (lexFrom ual (modeOf m ts) b).map eraseT ∧
            (∀ t ∈ ts, t.kind ≠ .eof ∧ t.kind ≠ .error) := by
        intro k v raw m' s1 s2 hlt hrne hm hkeof
        rw [s1] at hne
        rw [s1, s2]
        simp only at hne ⊢
        have hpos : 0 < raw.length := List.length_pos_iff.mpr hrne
        have hd : EndsLF ((c :: r).drop raw.length) := e2.drop _ hlt
        obtain ⟨ts, i1, i2, i3⟩ := lexFrom_concat ual b n ((c :: r).drop raw.length) m' (by
            simp only [List.length_drop]; omega) hd (fun t ht => hne t (List.mem_cons_of_mem _ ht))
        refine ⟨⟨k, v, 0, 0, none⟩ :: ts, by rw [i1]; rfl, ?_, ?_⟩
        · rw [i2, modeOf_cons, hm]; rfl
        · intro t ht
          rcases List.mem_cons.mp ht with rfl | ht
          · exact ⟨hkeof, hne _ (List.mem_cons_self)⟩
          · exact i3 t ht
      cases m with
      | header =>
        obtain ⟨f1, k, v, raw, m', f2, f3, f4, f5⟩ := hdrScan_lf c r b e2 hc
        have hk := hdrScan_kind _ _ _ _ _ f2
        exact key k v raw m' (by simp only [scanSig, f2]) (by
          simp only [scanSig, f1, f2]
          rw [List.drop_append_of_le_length (by omega)]) f3 f4 f5 hk.1
      | text =>
        cases ht : txtScan ual (c :: r) with
        | eof => exact absurd ht (txtScan_cons_ne_eof ual c r)
        | err e =>
          exfalso
          simp only [scanSig, ht] at hne
          exact hne _ (List.mem_singleton.mpr rfl) rfl
        | tok k v raw m' =>
          obtain ⟨f1, f3, f4, f5⟩ := txtScan_lf ual c r b e2 hc k v raw m' ht
          have hk := txtScan_kind _ _ _ _ _ _ ht
          exact key k v raw m' (by simp only [scanSig, ht]) (by
            simp only [scanSig, f1]
            rw [List.drop_append_of_le_length (by omega)]) f3 f4 f5 hk.1

theorem eraseT_kind (t : Tok) : (eraseT t).kind = t.kind := rfl

/-- the kinds of what a step emits -/
theorem lexStep_tok_kind (ual : List Nat) (m : Mode) (p : Pos) (t : Tok) (m' : Mode) (q : Pos)
    (h : lexStep ual m p = .tok t m' q) : t.kind ≠ .eof ∧ t.kind ≠ .error := by
  have hs := lexStep_scanSig ual m p
  rw [h] at hs
  simp only [Step.sig] at hs
  unfold scanSig at hs
  cases m with
  | header =>
    simp only at hs
    cases hh : hdrScan (skipR .header p.rest) with
    | none => rw [hh] at hs; simp at hs
    | some q' =>
      obtain ⟨k, v, raw, m2⟩ := q'
      rw [hh] at hs
      simp only [Prod.mk.injEq] at hs
      have := hdrScan_kind _ _ _ _ _ hh
      rw [← eraseT_kind t, hs.1]
      exact this
  | text =>
    simp only at hs
    cases hh : txtScan ual (skipR .text p.rest) with
    | eof => rw [hh] at hs; simp at hs
    | err e => rw [hh] at hs; simp at hs
    | tok k v raw m2 =>
      rw [hh] at hs
      simp only [Prod.mk.injEq] at hs
      have := txtScan_kind _ _ _ _ _ _ hh
      rw [← eraseT_kind t, hs.1]
      exact this

theorem lexStep_last_kind (ual : List Nat) (m : Mode) (p : Pos) (t : Tok)
    (h : lexStep ual m p = .last t) : t.kind = .eof ∨ t.kind = .error := by
  have hs := lexStep_scanSig ual m p
  rw [h] at hs
  simp only [Step.sig] at hs
  unfold scanSig at hs
  cases m with
  | header =>
    simp only at hs
    cases hh : hdrScan (skipR .header p.rest) with
    | none =>
      rw [hh] at hs
      simp only [Prod.mk.injEq] at hs
      left; rw [← eraseT_kind t, hs.1]; rfl
    | some q' =>
      obtain ⟨k, v, raw, m2⟩ := q'
      rw [hh] at hs
      simp at hs
  | text =>
    simp only at hs
    cases hh : txtScan ual (skipR .text p.rest) with
    | eof =>
      rw [hh] at hs
      simp only [Prod.mk.injEq] at hs
      left; rw [← eraseT_kind t, hs.1]; rfl
    | err e =>
      rw [hh] at hs
      simp only [Prod.mk.injEq] at hs
      right; rw [← eraseT_kind t, hs.1]
    | tok k v raw m2 => rw [hh] at hs; simp at hs

/-- a token stream is a run of proper tokens closed by one end-of-input or error token -/
theorem lexFuel_shape (ual : List Nat) : ∀ (fuel : Nat) (m : Mode) (p : Pos), p.rest.length < fuel →
    ∃ ts last, lexFuel ual fuel m p = ts ++ [last] ∧ (∀ t ∈ ts, t.kind ≠ .eof ∧ t.kind ≠ .error) ∧
      (last.kind = .eof ∨ last.kind = .error)
  | 0, _, _, h => by omega
  | fuel + 1, m, p, h => by
    rw [lexFuel]
    cases hs : lexStep ual m p with
    | last t => exact ⟨[], t, rfl, by simp, lexStep_last_kind ual m p t hs⟩
    | tok t m' q =>
      have hd := lexStep_decreases ual m p t m' q hs
      obtain ⟨ts, last, e1, e2, e3⟩ := lexFuel_shape ual fuel m' q (by omega)
      refine ⟨t :: ts, last, by simp [e1], ?_, e3⟩
      intro x hx
      rcases List.mem_cons.mp hx with rfl | hx
      · exact lexStep_tok_kind ual m p _ m' q hs
      · exact e2 x hx

/-! ### the mode after a run of tokens -/

theorem modeOf_append (m : Mode) (a b : List Tok) : modeOf m (a ++ b) = modeOf (modeOf m a) b := by
  simp [modeOf, List.foldl_append]

theorem modeOf_filter (m : Mode) (ts : List Tok) :
    modeOf m (ts.filter (fun t => t.kind != .comment)) = modeOf m ts := by
  induction ts generalizing m with
  | nil => rfl
  | cons t ts ih =>
    simp only [List.filter_cons]
    split
    · rw [modeOf_cons, modeOf_cons, ih]
    · rename_i hk
      have : t.kind = .comment := by
        cases hkk : t.kind <;> first | rfl | (rw [hkk] at hk; exact absurd hk (by decide))
      rw [modeOf_cons, this, ih]
      rfl

theorem modeOf_ends_msgEnd (m : Mode) (pre : List Tok) (d : Tok) (hd : d.kind = .msgEnd) :
    modeOf m (pre ++ [d]) = .header := by
  rw [modeOf_append]
  simp [modeOf, hd, nextMode]

end Lex
end Secs
