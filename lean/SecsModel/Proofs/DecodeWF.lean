/-
Every item the HSMS decoder returns is well formed (`Tmpl.wf`, with values in range and floats
finite) and variable-free: what the lenient reading relation `Spec.Denotes` denotes is a
well-formed closed tree, and the decoder is sound for that relation (Proofs/Denotes.lean).
Together with Proofs/FillWF (factories, fills, ellipsis expansion) and Proofs/ParserWF (the SML
parser) this closes the invariant over every producer of item trees in the library.
-/
import SecsModel.Proofs.Denotes
import SecsModel.Model.WF
namespace Secs
open Secs.Spec

theorem kok_limit (k n : Nat) (h : KOk k n) : n ≤ maxByteSize := by
  obtain ⟨h1, h3, hn⟩ := h
  have : (256 : Nat) ^ k ≤ 256 ^ 3 := Nat.pow_le_pow_right (by decide) h3
  unfold maxByteSize
  omega

theorem slotsOk_of_vals {α} (p : α → Bool) (vs : List α) (h : ∀ v ∈ vs, p v = true) : slotsOk p (vs.map Slot.val) = true := by
  unfold slotsOk
  simp only [Bool.and_eq_true, List.all_eq_true, List.mem_map]
  refine ⟨?_, by rw [slotVars_map_val]; rfl⟩
  rintro s ⟨v, hv, rfl⟩
  exact h v hv

theorem closed_vars_nil : ∀ t : Tmpl, t.closed = true → t.vars = []
  | .list xs, h => by simp only [Tmpl.closed] at h; simp only [Tmpl.vars]; exact closedAll_vars_nil xs h
  | .ascii _, _ => rfl
  | .asciiVar _ _ _, h => by simp [Tmpl.closed] at h
  | .binary xs, h => by simpa [Tmpl.closed, Tmpl.vars] using h
  | .boolean xs, h => by simpa [Tmpl.closed, Tmpl.vars] using h
  | .int _ xs, h => by simpa [Tmpl.closed, Tmpl.vars] using h
  | .uint _ xs, h => by simpa [Tmpl.closed, Tmpl.vars] using h
  | .float _ xs, h => by simpa [Tmpl.closed, Tmpl.vars] using h
  | .empty, h => by simp [Tmpl.closed] at h
where
  closedAll_vars_nil : ∀ xs : Slots, xs.closedAll = true → xs.vars = []
  | .nil, _ => rfl
  | .var _ _, h => by simp [Slots.closedAll] at h
  | .item t r, h => by
    simp only [Slots.closedAll, Bool.and_eq_true] at h
    have ht := closed_vars_nil t h.1
    have hr := closedAll_vars_nil r h.2
    cases t with
    | empty => simp [Tmpl.closed] at h
    | list _ | ascii _ | asciiVar _ _ _ | binary _ | boolean _ | int _ _ | uint _ _ | float _ _ =>
      simp only [Slots.vars, ht, hr, List.append_nil]

mutual
/-- what the decoder's reading relation denotes is a well-formed tree -/
theorem denotes_wf (p : Bytes) (t : Tmpl) (h : Denotes p t) : t.wf = true := by
  cases t with
  | empty => cases h
  | asciiVar n a b => cases h
  | list xs =>
    cases h with
    | list k _ q hk hall =>
      have hc := denotesAll_closed q xs hall
      simp only [Tmpl.wf, Bool.and_eq_true, decide_eq_true_eq]
      refine ⟨⟨⟨kok_limit _ _ hk, denotesAll_wf q xs hall⟩, listOwnOk_closed xs hc 0 false⟩, ?_⟩
      rw [closed_vars_nil.closedAll_vars_nil xs hc]; rfl
  | ascii s =>
    cases h with
    | ascii k _ hk hall =>
      simp only [Tmpl.wf, Bool.and_eq_true, decide_eq_true_eq, List.all_eq_true]
      exact ⟨kok_limit _ _ hk, hall⟩
  | binary xs =>
    cases h with
    | binary k vs hk hall =>
      simp only [Tmpl.wf, Bool.and_eq_true, decide_eq_true_eq, List.length_map]
      exact ⟨kok_limit _ _ hk, slotsOk_of_vals _ vs (fun v hv => by simpa using hall v hv)⟩
  | boolean xs =>
    cases h with
    | boolean k bs hk =>
      simp only [Tmpl.wf, Bool.and_eq_true, decide_eq_true_eq, List.length_map]
      refine ⟨kok_limit _ _ hk, ?_⟩
      have := slotsOk_of_vals (fun _ : Bool => true) (bs.map (fun b => b != 0)) (fun _ _ => rfl)
      rw [List.map_map] at this
      exact this
  | int w xs =>
    cases h with
    | int _ c k vs hcode hk hall =>
      have hw : validWidthInt w = true := by
        unfold intCode at hcode
        split at hcode <;> first | rfl | cases hcode
      simp only [Tmpl.wf, Bool.and_eq_true, decide_eq_true_eq, List.length_map]
      refine ⟨⟨hw, kok_limit _ _ hk⟩, slotsOk_of_vals _ vs ?_⟩
      intro v hv
      have := hall v hv
      simp only [intInRange, Bool.and_eq_true, decide_eq_true_eq]
      omega
  | uint w xs =>
    cases h with
    | uint _ c k vs hcode hk hall =>
      have hw : validWidthInt w = true := by
        unfold uintCode at hcode
        split at hcode <;> first | rfl | cases hcode
      simp only [Tmpl.wf, Bool.and_eq_true, decide_eq_true_eq, List.length_map]
      refine ⟨⟨hw, kok_limit _ _ hk⟩, slotsOk_of_vals _ vs ?_⟩
      intro v hv
      have := hall v hv
      simp only [uintInRange, decide_eq_true_eq]
      omega
  | float w xs =>
    cases h with
    | float _ c k vs hcode hk hall =>
      have hw : validWidthFloat w = true := by
        unfold floatCode at hcode
        split at hcode <;> first | rfl | cases hcode
      simp only [Tmpl.wf, Bool.and_eq_true, decide_eq_true_eq, List.length_map]
      refine ⟨⟨hw, kok_limit _ _ hk⟩, slotsOk_of_vals _ vs ?_⟩
      intro v hv
      have := hall v hv
      simp only [Bool.and_eq_true, decide_eq_true_eq]
      exact this
theorem denotesAll_wf (p : Bytes) (xs : Slots) (h : DenotesAll p xs) : xs.wfAll = true := by
  cases xs with
  | nil => rfl
  | var n r => cases h
  | item t r =>
    cases h with
    | cons b q _ _ hb hq => simp [Slots.wfAll, denotes_wf b t hb, denotesAll_wf q r hq]
end

/-- **every item the HSMS decoder returns is well formed and variable-free** -/
theorem decItem_wf (fuel : Nat) (inp : Bytes) (t : Tmpl) (r : Bytes) (h : decItem fuel inp = some (t, r))
    (hb : IsBytes inp) : t.wf = true ∧ t.closed = true := by
  obtain ⟨p, _, hd⟩ := dec_sound fuel inp t r h hb
  exact ⟨denotes_wf p t hd, denotes_closed p t hd⟩

theorem mkHsmsMsg_fields (name : Bytes) (st fn wb : Int) (dir : Bytes) (item : Tmpl) (sid : Int) (sys : Bytes) (m : Msg)
    (h : mkHsmsMsg name st fn wb dir item sid sys = some m) : m.item = item ∧ m.valid = true := by
  unfold mkHsmsMsg at h
  split at h
  · cases h
  · split at h
    · cases h
    · split at h
      · cases h
      · unfold checked at h
        split at h
        · injection h with h; subst h; exact ⟨rfl, by assumption⟩
        · cases h

/-- **every data message `hsms.Parse` returns**, for every byte string, is a valid message whose
item is absent (header-only message) or well formed and variable-free -/
theorem decode_data_wf (inp : Bytes) (m : Msg) (h : decode inp = some (.data m)) (hb : IsBytes inp) :
    m.valid = true ∧ (m.item = .empty ∨ (m.item.wf = true ∧ m.item.closed = true)) := by
  unfold decode at h
  split at h
  · cases h
  · dsimp only at h
    split at h
    · -- data message
      unfold decodeData at h
      dsimp only at h
      split at h
      · cases h
      · rename_i item hitem
        rw [Option.map_eq_some_iff] at h
        obtain ⟨m0, hmk, hm⟩ := h
        injection hm with hm
        subst hm
        obtain ⟨hi, hv⟩ := mkHsmsMsg_fields _ _ _ _ _ _ _ _ _ hmk
        refine ⟨hv, ?_⟩
        rw [hi]
        split at hitem
        · left; injection hitem with hitem; exact hitem.symm
        · right
          unfold decodeText at hitem
          split at hitem
          · rename_i t hd
            injection hitem with hitem; subst hitem
            exact decItem_wf _ _ _ _ hd (isBytes_drop inp 14 hb)
          · cases hitem
    · split at h
      · unfold decodeCtrl at h
        split at h
        · cases h
        · cases hc : mkCtrl ((inp.drop 4).take 10) with
          | none => simp [hc] at h
          | some c => simp [hc] at h
      · cases h

end Secs
