/-
The value of an integer literal does not depend on the letter case of its base prefix and of its
hexadecimal digits: `strconv.ParseUint` / `ParseInt` (as modelled) read `0X1F`, `0x1f` and `0X1f`
alike - same value, same error. (The parser half of "letter case never changes what is parsed"
for numbers; that the lexer takes the same run of characters as one number token in either case
is decided by the metamorphic oracle.)
-/
import SecsModel.Model.Strconv
namespace Secs
namespace Strconv

/-- change the case of an ASCII letter, leave everything else alone -/
def swapCaseB (c : Nat) : Nat := if isUpperB c then c + 32 else if isLowerB c then c - 32 else c

theorem lowerB_swap (c : Nat) : lowerB (swapCaseB c) = lowerB c := by
  unfold lowerB swapCaseB isUpperB isLowerB
  by_cases h1 : 65 ≤ c ∧ c ≤ 90
  · have : ¬ (65 ≤ c + 32 ∧ c + 32 ≤ 90) := by omega
    simp [h1.1, h1.2, this]
    omega
  · by_cases h2 : 97 ≤ c ∧ c ≤ 122
    · have hu : (65 ≤ c - 32 ∧ c - 32 ≤ 90) := by omega
      have : (decide (65 ≤ c) && decide (c ≤ 90)) = false := by
        simp only [Bool.and_eq_false_iff, decide_eq_false_iff_not]; omega
      simp only [this, Bool.false_eq_true, if_false, h2.1, h2.2, decide_true, Bool.and_self, if_true, hu.1, hu.2]
      omega
    · have a : (decide (65 ≤ c) && decide (c ≤ 90)) = false := by
        simp only [Bool.and_eq_false_iff, decide_eq_false_iff_not]; omega
      have b : (decide (97 ≤ c) && decide (c ≤ 122)) = false := by
        simp only [Bool.and_eq_false_iff, decide_eq_false_iff_not]; omega
      simp [a, b]

theorem isDigitB_false (x : Nat) (h : 58 ≤ x) : isDigitB x = false := by
  unfold isDigitB
  simp only [Bool.and_eq_false_iff, decide_eq_false_iff_not]; omega

theorem isDigitB_swap (c : Nat) : isDigitB (swapCaseB c) = isDigitB c := by
  unfold swapCaseB isUpperB isLowerB
  by_cases h1 : 65 ≤ c ∧ c ≤ 90
  · simp only [h1.1, h1.2, decide_true, Bool.and_self, if_true]
    rw [isDigitB_false (c + 32) (by omega), isDigitB_false c (by omega)]
  · have a : (decide (65 ≤ c) && decide (c ≤ 90)) = false := by
      simp only [Bool.and_eq_false_iff, decide_eq_false_iff_not]; omega
    by_cases h2 : 97 ≤ c ∧ c ≤ 122
    · simp only [a, Bool.false_eq_true, if_false, h2.1, h2.2, decide_true, Bool.and_self, if_true]
      rw [isDigitB_false (c - 32) (by omega), isDigitB_false c (by omega)]
    · have b : (decide (97 ≤ c) && decide (c ≤ 122)) = false := by
        simp only [Bool.and_eq_false_iff, decide_eq_false_iff_not]; omega
      simp [a, b]

theorem isAlphaB_swap (c : Nat) : isAlphaB (swapCaseB c) = isAlphaB c := by
  unfold swapCaseB isAlphaB isUpperB isLowerB
  by_cases h1 : 65 ≤ c ∧ c ≤ 90
  · have : 97 ≤ c + 32 ∧ c + 32 ≤ 122 := by omega
    simp [h1.1, h1.2, this.1, this.2]
  · have a : (decide (65 ≤ c) && decide (c ≤ 90)) = false := by
      simp only [Bool.and_eq_false_iff, decide_eq_false_iff_not]; omega
    by_cases h2 : 97 ≤ c ∧ c ≤ 122
    · have : 65 ≤ c - 32 ∧ c - 32 ≤ 90 := by omega
      simp [a, h2.1, h2.2, this.1, this.2]
    · have b : (decide (97 ≤ c) && decide (c ≤ 122)) = false := by
        simp only [Bool.and_eq_false_iff, decide_eq_false_iff_not]; omega
      simp [a, b]

theorem swap_eq_iff (c k : Nat) (hk : isAlphaB k = false) : (swapCaseB c == k) = (c == k) := by
  unfold swapCaseB
  unfold isAlphaB isUpperB isLowerB at hk
  simp only [Bool.or_eq_false_iff, Bool.and_eq_false_iff, decide_eq_false_iff_not] at hk
  unfold isUpperB isLowerB
  by_cases h1 : 65 ≤ c ∧ c ≤ 90
  · simp only [h1.1, h1.2, decide_true, Bool.and_self, if_true]
    have e1 : (c + 32 == k) = false := by rw [beq_eq_false_iff_ne]; omega
    have e2 : (c == k) = false := by rw [beq_eq_false_iff_ne]; omega
    rw [e1, e2]
  · have a : (decide (65 ≤ c) && decide (c ≤ 90)) = false := by
      simp only [Bool.and_eq_false_iff, decide_eq_false_iff_not]; omega
    by_cases h2 : 97 ≤ c ∧ c ≤ 122
    · simp only [a, Bool.false_eq_true, if_false, h2.1, h2.2, decide_true, Bool.and_self, if_true]
      have e1 : (c - 32 == k) = false := by rw [beq_eq_false_iff_ne]; omega
      have e2 : (c == k) = false := by rw [beq_eq_false_iff_ne]; omega
      rw [e1, e2]
    · have b : (decide (97 ≤ c) && decide (c ≤ 122)) = false := by
        simp only [Bool.and_eq_false_iff, decide_eq_false_iff_not]; omega
      simp [a, b]


/-- a map on characters that may change the letter case of a letter and nothing else -/
class CaseMap (f : Nat → Nat) : Prop where
  lower : ∀ c, lowerB (f c) = lowerB c
  digit : ∀ c, isDigitB (f c) = isDigitB c
  alpha : ∀ c, isAlphaB (f c) = isAlphaB c
  eqk : ∀ c k, isAlphaB k = false → (f c == k) = (c == k)

instance : CaseMap swapCaseB := ⟨lowerB_swap, isDigitB_swap, isAlphaB_swap, swap_eq_iff⟩

section
variable {f : Nat → Nat} [CaseMap f]

theorem digitVal_case (c : Nat) : digitVal (f c) = digitVal c := by
  unfold digitVal
  rw [(CaseMap.digit (f := f)), (CaseMap.alpha (f := f)), (CaseMap.lower (f := f))]
  by_cases hd : isDigitB c = true
  · -- a digit is no letter: unchanged
    have hna : isAlphaB c = false := by
      unfold isDigitB at hd
      simp only [Bool.and_eq_true, decide_eq_true_eq] at hd
      unfold isAlphaB isUpperB isLowerB
      simp only [Bool.or_eq_false_iff, Bool.and_eq_false_iff, decide_eq_false_iff_not]; omega
    have : f c = c := by
      have := CaseMap.eqk (f := f) c c hna
      simpa using this
    rw [this]
  · simp [hd]

theorem puLoop_case (base maxVal : Nat) (base0 : Bool) : ∀ (s : Bytes) (n : Nat) (u : Bool),
    puLoop base maxVal base0 (s.map f) n u = puLoop base maxVal base0 s n u
  | [], _, _ => rfl
  | c :: r, n, u => by
    simp only [List.map_cons, puLoop, digitVal_case, CaseMap.eqk (f := f) c 95 (by decide)]
    split
    · exact puLoop_case base maxVal base0 r n true
    · split
      · rfl
      · split
        · rfl
        · split
          · rfl
          · exact puLoop_case base maxVal base0 r _ u

theorem usLoop_case (hex : Bool) : ∀ (s : Bytes) (st : Nat), usLoop hex (s.map f) st = usLoop hex s st
  | [], _ => rfl
  | c :: r, st => by
    simp only [List.map_cons, usLoop, (CaseMap.digit (f := f)), (CaseMap.lower (f := f)), CaseMap.eqk (f := f) c 95 (by decide)]
    split
    · exact usLoop_case hex r 1
    · split
      · split
        · rfl
        · exact usLoop_case hex r 2
      · split
        · rfl
        · exact usLoop_case hex r 3

theorem case_eq_iff (c k : Nat) (hk : isAlphaB k = false) : (f c = k) ↔ (c = k) := by
  have := CaseMap.eqk (f := f) c k hk
  constructor
  · intro h; have h1 : (f c == k) = true := by simpa using h
    rw [this] at h1; simpa using h1
  · intro h; have h1 : (c == k) = true := by simpa using h
    rw [← this] at h1; simpa using h1

theorem case_fixed (k : Nat) (hk : isAlphaB k = false) : f k = k := by
  have := CaseMap.eqk (f := f) k k hk
  simpa using this

theorem case_ne (c k : Nat) (hk : isAlphaB k = false) (h : c ≠ k) : f c ≠ k :=
  fun e => h ((case_eq_iff c k hk).mp e)

theorem basePrefix_ne (x : Nat) (t : Bytes) (h : x ≠ 48) : basePrefix (x :: t) = (10, x :: t) := by
  unfold basePrefix
  split
  · rename_i heq; injection heq with h1 _; exact absurd h1 h
  · rename_i heq; injection heq with h1 _; exact absurd h1 h
  · rfl

theorem basePrefix_case (s : Bytes) :
    basePrefix (s.map f) = ((basePrefix s).1, (basePrefix s).2.map f) := by
  cases s with
  | nil => rfl
  | cons x t =>
    by_cases hx : x = 48
    · subst hx
      cases t with
      | nil => rw [List.map_cons, case_fixed (f := f) 48 (by decide)]; rfl
      | cons c r =>
        have h48 : f 48 = 48 := case_fixed (f := f) 48 (by decide)
        simp only [List.map_cons, h48, basePrefix, (CaseMap.lower (f := f)), List.length_cons, List.length_map]
        split
        · rfl
        · split
          · rfl
          · split
            · rfl
            · rfl
    · rw [List.map_cons, basePrefix_ne _ _ (case_ne (f := f) x 48 (by decide) hx), basePrefix_ne _ _ hx]
      rfl

def stripSign (s : Bytes) : Bytes := match s with | 43 :: r => r | 45 :: r => r | _ => s

def usHead (s : Bytes) : Bool :=
  match s with
  | 48 :: c :: r =>
    if lowerB c == 98 || lowerB c == 111 || lowerB c == 120 then usLoop (lowerB c == 120) r 1
    else usLoop false s 0
  | _ => usLoop false s 0

theorem underscoreOK_eq (s : Bytes) : underscoreOK s = usHead (stripSign s) := rfl

theorem stripSign_case (s : Bytes) : stripSign (s.map f) = (stripSign s).map f := by
  cases s with
  | nil => rfl
  | cons x t =>
    by_cases h43 : x = 43
    · subst h43; rw [List.map_cons, case_fixed (f := f) 43 (by decide)]; rfl
    · by_cases h45 : x = 45
      · subst h45; rw [List.map_cons, case_fixed (f := f) 45 (by decide)]; rfl
      · have a := case_ne (f := f) x 43 (by decide) h43
        have b := case_ne (f := f) x 45 (by decide) h45
        have l : stripSign (f x :: t.map f) = f x :: t.map f := by
          unfold stripSign
          split
          · rename_i heq; injection heq with h1 _; exact absurd h1 a
          · rename_i heq; injection heq with h1 _; exact absurd h1 b
          · rfl
        have r : stripSign (x :: t) = x :: t := by
          unfold stripSign
          split
          · rename_i heq; injection heq with h1 _; exact absurd h1 h43
          · rename_i heq; injection heq with h1 _; exact absurd h1 h45
          · rfl
        rw [List.map_cons, l, r]; rfl

theorem usHead_ne (x : Nat) (t : Bytes) (h : x ≠ 48) : usHead (x :: t) = usLoop false (x :: t) 0 := by
  unfold usHead
  split
  · rename_i heq; injection heq with h1 _; exact absurd h1 h
  · rfl

theorem usHead_case (s : Bytes) : usHead (s.map f) = usHead s := by
  cases s with
  | nil => rfl
  | cons x t =>
    by_cases hx : x = 48
    · subst hx
      cases t with
      | nil => rw [List.map_cons, case_fixed (f := f) 48 (by decide)]; rfl
      | cons c r =>
        have h48 : f 48 = 48 := case_fixed (f := f) 48 (by decide)
        have e := usLoop_case (f := f) false (48 :: c :: r) 0
        simp only [List.map_cons, h48] at e
        simp only [List.map_cons, h48, usHead, (CaseMap.lower (f := f)), usLoop_case (f := f), e]
    · have e := usLoop_case (f := f) false (x :: t) 0
      rw [List.map_cons] at e ⊢
      rw [usHead_ne _ _ (case_ne (f := f) x 48 (by decide) hx), usHead_ne _ _ hx, e]

theorem underscoreOK_case (s : Bytes) : underscoreOK (s.map f) = underscoreOK s := by
  rw [underscoreOK_eq, underscoreOK_eq, stripSign_case, usHead_case]

/-- **ParseUint does not depend on letter case** (prefix `0x`/`0X`/`0b`/`0B`/`0o`/`0O`, hex digits) -/
theorem parseUint_case (s : Bytes) (base bitSize : Nat) : parseUint (s.map f) base bitSize = parseUint s base bitSize := by
  unfold parseUint
  have he : (s.map f).isEmpty = s.isEmpty := by cases s <;> rfl
  rw [he]
  split
  · rfl
  · simp only []
    by_cases hb : (base == 0) = true
    · simp only [hb, if_true, basePrefix_case, puLoop_case, underscoreOK_case]
    · simp only [hb, if_false, Bool.false_eq_true, puLoop_case, underscoreOK_case]

theorem splitSign_case (s : Bytes) : splitSign (s.map f) = ((splitSign s).1, (splitSign s).2.map f) := by
  cases s with
  | nil => rfl
  | cons x t =>
    by_cases h43 : x = 43
    · subst h43; rw [List.map_cons, case_fixed (f := f) 43 (by decide)]; rfl
    · by_cases h45 : x = 45
      · subst h45; rw [List.map_cons, case_fixed (f := f) 45 (by decide)]; rfl
      · have a := case_ne (f := f) x 43 (by decide) h43
        have b := case_ne (f := f) x 45 (by decide) h45
        have l : splitSign (f x :: t.map f) = (false, f x :: t.map f) := by
          unfold splitSign
          split
          · rename_i heq; injection heq with h1 _; exact absurd h1 a
          · rename_i heq; injection heq with h1 _; exact absurd h1 b
          · rfl
        have r : splitSign (x :: t) = (false, x :: t) := by
          unfold splitSign
          split
          · rename_i heq; injection heq with h1 _; exact absurd h1 h43
          · rename_i heq; injection heq with h1 _; exact absurd h1 h45
          · rfl
        rw [List.map_cons, l, r]; rfl

/-- **ParseInt does not depend on letter case** -/
theorem parseInt_case (s : Bytes) (base bitSize : Nat) : parseInt (s.map f) base bitSize = parseInt s base bitSize := by
  unfold parseInt
  have he : (s.map f).isEmpty = s.isEmpty := by cases s <;> rfl
  rw [he, splitSign_case]
  simp only [parseUint_case]

end

/-- lower-casing is such a map -/
theorem lowerB_idem (c : Nat) : lowerB (lowerB c) = lowerB c := by
  unfold lowerB isUpperB
  by_cases h : 65 ≤ c ∧ c ≤ 90
  · have : ¬ (65 ≤ c + 32 ∧ c + 32 ≤ 90) := by omega
    simp [h.1, h.2]; omega
  · have a : (decide (65 ≤ c) && decide (c ≤ 90)) = false := by
      simp only [Bool.and_eq_false_iff, decide_eq_false_iff_not]; omega
    simp [a]

theorem lowerB_cases (c : Nat) : lowerB c = c ∨ (isUpperB c = true ∧ lowerB c = swapCaseB c) := by
  unfold lowerB swapCaseB
  by_cases h : isUpperB c = true
  · right; simp [h]
  · left; simp [h]

instance : CaseMap lowerB where
  lower := lowerB_idem
  digit c := by rcases lowerB_cases c with h | ⟨_, h⟩ <;> rw [h]; exact isDigitB_swap c
  alpha c := by rcases lowerB_cases c with h | ⟨_, h⟩ <;> rw [h]; exact isAlphaB_swap c
  eqk c k hk := by rcases lowerB_cases c with h | ⟨_, h⟩ <;> rw [h]; exact swap_eq_iff c k hk

/-- **two spellings that differ in letter case only are read alike** by ParseUint and ParseInt -/
theorem parseUint_same_lower (s1 s2 : Bytes) (h : s1.map lowerB = s2.map lowerB) (base bitSize : Nat) :
    parseUint s1 base bitSize = parseUint s2 base bitSize := by
  rw [← parseUint_case (f := lowerB) s1, ← parseUint_case (f := lowerB) s2, h]

theorem parseInt_same_lower (s1 s2 : Bytes) (h : s1.map lowerB = s2.map lowerB) (base bitSize : Nat) :
    parseInt s1 base bitSize = parseInt s2 base bitSize := by
  rw [← parseInt_case (f := lowerB) s1, ← parseInt_case (f := lowerB) s2, h]

end Strconv
end Secs
