/-
The token-level printer: the token stream (positions aside) that the printed form of an item or
message consists of, and the parser half of the print → parse round trip: parsing that token
stream gives the item back.
-/
import SecsModel.Model.Parser
import SecsModel.Model.Print
import SecsModel.Proofs.PrintParseNum
import SecsModel.Props.C15
import SecsModel.Proofs.FillLeaf
namespace Secs
namespace Sml
open Lex Strconv

def tk (k : Kind) (v : Bytes) : Tok := ⟨k, v, 0, 0, none⟩

def slotToks {α} (f : α → Tok) : List (Slot α) → List Tok
  | [] => []
  | .val a :: r => f a :: slotToks f r
  | .var n :: r => tk .variable n :: slotToks f r

def sizeTok (n : Nat) : Tok := tk .itemSize ([91] ++ decDigits n ++ [93])

/-- `<T[n] v … v>` -/
def arrayToks {α} (ty : Bytes) (f : α → Tok) (xs : List (Slot α)) : List Tok :=
  [tk .lab [60], tk .itemType ty, sizeTok xs.length] ++ slotToks f xs ++ [tk .rab [62]]

/-- the literal tokens of an ASCII item: quoted runs and `0xNN` codes (`run` = the quoted run
being collected) -/
def asciiSegs : Bytes → Bytes → List Tok
  | run, [] => if run.isEmpty then [] else [tk .quoted (34 :: (run ++ [34]))]
  | run, ch :: r =>
    if asciiIsCode ch then
      (if run.isEmpty then [] else [tk .quoted (34 :: (run ++ [34]))]) ++
        tk .number (48 :: 120 :: hex2 ch) :: asciiSegs [] r
    else asciiSegs (run ++ [ch]) r

/-- the size declaration of an ASCII variable, as printed -/
def boundsToks (mn mx : Int) : List Tok :=
  if mn == 0 && mx == -1 then [] else [tk .itemSize (printSizeBounds mn mx)]

/-- the argument a slot hands to the factory when it is rebuilt from its own content -/
def argOf {α} (canon : α → GoVal) : Slot α → GoVal
  | .val a => canon a
  | .var n => .str n

mutual
def itemToks : Tmpl → List Tok
  | .list xs =>
    [tk .lab [60], tk .itemType [76]] ++ (if xs.hasVar then [] else [sizeTok xs.len]) ++ slotsToks xs ++ [tk .rab [62]]
  | .ascii s =>
    if s.isEmpty then [tk .lab [60], tk .itemType [65], sizeTok 0, tk .rab [62]]
    else [tk .lab [60], tk .itemType [65]] ++ asciiSegs [] s ++ [tk .rab [62]]
  | .asciiVar n mn mx => [tk .lab [60], tk .itemType [65]] ++ boundsToks mn mx ++ [tk .variable n, tk .rab [62]]
  | .binary xs => arrayToks [66] (fun v => tk .number (printBin v)) xs
  | .boolean xs => arrayToks [66, 79, 79, 76, 69, 65, 78] (fun b => tk .bool (printBool b)) xs
  | .int w xs => arrayToks (73 :: decDigits w) (fun v => tk .number (intDec v)) xs
  | .uint w xs => arrayToks (85 :: decDigits w) (fun v => tk .number (decDigits v)) xs
  | .float w xs => arrayToks (70 :: decDigits w) (fun b => tk .number (FloatLib.fmtG w b)) xs
  | .empty => []
def slotsToks : Slots → List Tok
  | .nil => []
  | .item t r => itemToks t ++ slotsToks r
  | .var n r => (if isEllipsis n then tk .ellipsis [46, 46, 46] else tk .variable n) :: slotsToks r
end

/-! ### rebuilding a node from its own slots -/

theorem rebuild_slots {α} (conv : GoVal → Option α) (canon : α → GoVal) (xs : List (Slot α))
    (hval : ∀ a, Slot.val a ∈ xs → conv (canon a) = some a)
    (hname : ∀ n, Slot.var n ∈ xs → conv (.str n) = none) :
    mkSlots conv (xs.map (argOf canon)) = some xs := by
  induction xs with
  | nil => rfl
  | cons x r ih =>
    have ihr := ih (fun a ha => hval a (by simp [ha])) (fun n hn => hname n (by simp [hn]))
    cases x with
    | val a =>
      have hc := hval a (by simp)
      simp only [List.map_cons, argOf]
      cases hg : canon a <;> simp [mkSlots, hg ▸ hc, ihr]
    | var n =>
      have hc := hname n (by simp)
      simp [argOf, mkSlots, hc, ihr]


/-! ### value tokens -/

def isValueKind (k : Kind) : Bool := k == .number || k == .bool || k == .quoted || k == .variable

theorem valueTokens_values : ∀ (fuel : Nat) (vals : List Tok) (rest : List Tok) (s : PS),
    (∀ t ∈ vals, isValueKind t.kind = true) → s.toks = vals ++ tk .rab [62] :: rest → vals.length < fuel →
    valueTokens fuel s = (vals, { s with toks := tk .rab [62] :: rest }) := by
  intro fuel
  induction fuel with
  | zero => intro vals rest s _ _ h; omega
  | succ n ih =>
    intro vals rest s hv hs hf
    cases vals with
    | nil =>
      simp only [List.nil_append] at hs
      unfold valueTokens
      have hp : s.peek = tk .rab [62] := by simp [PS.peek, hs]
      simp only [hp, tk]
      cases s
      simp only at hs
      subst hs
      rfl
    | cons v vs =>
      have hk := hv v (by simp)
      have hp : s.peek = v := by simp [PS.peek, hs]
      have hpop : s.pop.toks = vs ++ tk .rab [62] :: rest := by simp [PS.pop, hs]
      have ihr := ih vs rest s.pop (fun t ht => hv t (by simp [ht])) hpop (by simpa using hf)
      have hpop2 : ({ s.pop with toks := tk .rab [62] :: rest } : PS) = { s with toks := tk .rab [62] :: rest } := by
        cases s; rfl
      rw [hpop2] at ihr
      unfold valueTokens
      simp only [hp]
      have hk4 : v.kind = .number ∨ v.kind = .bool ∨ v.kind = .quoted ∨ v.kind = .variable := by
        cases hkk : v.kind <;> (rw [hkk] at hk; revert hk; decide)
      rcases hk4 with h | h | h | h <;> (rw [h]; simp only [ihr])

/-- names not yet used: pairwise distinct and none in the parser's table -/
def Fresh (vs names : List Name) : Prop := nodupNames vs = true ∧ ∀ v ∈ vs, names.contains v = false

theorem Fresh.tail {n : Name} {r names : List Name} (h : Fresh (n :: r) names) : Fresh r (n :: names) := by
  obtain ⟨h1, h2⟩ := h
  simp only [nodupNames, Bool.and_eq_true, Bool.not_eq_true'] at h1
  refine ⟨h1.2, ?_⟩
  intro v hv
  have hne : v ≠ n := by
    intro hvn; subst hvn
    have : r.contains v = true := by simpa using hv
    rw [this] at h1; exact absurd h1.1 (by simp)
  have := h2 v (by simp [hv])
  simp only [List.contains_cons, Bool.or_eq_false_iff]
  exact ⟨by simpa using hne, this⟩

theorem Fresh.head {n : Name} {r names : List Name} (h : Fresh (n :: r) names) : names.contains n = false :=
  h.2 n (by simp)

/-- the arguments of the factory as the array parser assembles them from the printed tokens -/
theorem arrayArgs_slotToks {α} (ty : Bytes) (w : Nat) (f : α → Tok) (canon : α → GoVal) :
    ∀ (xs : List (Slot α)) (s : PS),
    (∀ a, Slot.val a ∈ xs → (f a).kind ≠ .error ∧ ∀ s' : PS, arrayArg ty w s' (f a) = some (canon a, s')) →
    Fresh (slotVars xs) s.names →
    arrayArgs ty w (slotToks f xs) s =
      (some (xs.map (argOf canon)), { s with names := (slotVars xs).reverse ++ s.names }) := by
  intro xs
  induction xs with
  | nil => intro s _ _; simp [slotToks, arrayArgs, slotVars]
  | cons x r ih =>
    intro s hval hfresh
    cases x with
    | val a =>
      obtain ⟨hk, ha⟩ := hval a (by simp)
      have ihr := ih s (fun b hb => hval b (by simp [hb])) (by simpa [slotVars] using hfresh)
      simp only [slotToks, arrayArgs]
      have hke : ((f a).kind == Kind.error) = false := by
        cases hka : (f a).kind <;> first | rfl | exact absurd hka hk
      simp only [hke, Bool.false_eq_true, if_false, ha s, ihr, List.map_cons, argOf, slotVars]
    | var n =>
      have hfr : Fresh (n :: slotVars r) s.names := by simpa [slotVars] using hfresh
      have hn := hfr.head
      have harg : arrayArg ty w s (tk .variable n) = some (.str n, s.addName n) := by
        unfold arrayArg
        simp only [tk, varArg, hn, Bool.false_eq_true, if_false]
        rfl
      have ihr := ih (s.addName n) (fun b hb => hval b (by simp [hb])) (by simpa [PS.addName] using hfr.tail)
      simp only [slotToks, arrayArgs]
      have hke : ((tk .variable n).kind == Kind.error) = false := rfl
      simp only [hke, Bool.false_eq_true, if_false, harg, ihr, List.map_cons, argOf, slotVars]
      simp [PS.addName]


/-! ### array items -/

/-- the factory `arrayItem` dispatches to, by type name -/
def dispatch (ty : Bytes) (w : Nat) (gs : List GoVal) : Option Tmpl :=
  if ty == [66] then mkBinary gs
  else if ty == [66, 79, 79, 76, 69, 65, 78] then mkBoolean gs
  else if ty.head? == some 70 then mkFloat w gs
  else if ty.head? == some 73 then mkInt w gs
  else mkUint w gs

theorem slotToks_value {α} (f : α → Tok) (xs : List (Slot α)) (hf : ∀ a, Slot.val a ∈ xs → isValueKind (f a).kind = true) :
    ∀ t ∈ slotToks f xs, isValueKind t.kind = true := by
  induction xs with
  | nil => intro t ht; simp [slotToks] at ht
  | cons x r ih =>
    intro t ht
    cases x with
    | val a =>
      simp only [slotToks, List.mem_cons] at ht
      rcases ht with rfl | ht
      · exact hf a (by simp)
      · exact ih (fun b hb => hf b (by simp [hb])) t ht
    | var n =>
      simp only [slotToks, List.mem_cons] at ht
      rcases ht with rfl | ht
      · rfl
      · exact ih (fun b hb => hf b (by simp [hb])) t ht

theorem slotToks_length {α} (f : α → Tok) (xs : List (Slot α)) : (slotToks f xs).length = xs.length := by
  induction xs with
  | nil => rfl
  | cons x r ih => cases x <;> simp [slotToks, ih]

/-- the values of an array item, parsed from its printed tokens, rebuild the item -/
theorem arrayItem_toks {α} (ty : Bytes) (f : α → Tok) (canon : α → GoVal) (xs : List (Slot α)) (t : Tmpl)
    (s : PS) (rest : List Tok)
    (hs : s.toks = slotToks f xs ++ tk .rab [62] :: rest)
    (hkind : ∀ a, Slot.val a ∈ xs → isValueKind (f a).kind = true)
    (hval : ∀ a, Slot.val a ∈ xs → (f a).kind ≠ .error ∧ ∀ s' : PS, arrayArg ty (widthOfType ty) s' (f a) = some (canon a, s'))
    (hfresh : Fresh (slotVars xs) s.names)
    (hmk : dispatch ty (widthOfType ty) (xs.map (argOf canon)) = some t) :
    arrayItem ty s = (.ok t, { s with toks := tk .rab [62] :: rest, names := (slotVars xs).reverse ++ s.names }) := by
  unfold arrayItem
  have hvt := valueTokens_values (s.toks.length + 1) (slotToks f xs) rest s (slotToks_value f xs hkind) hs
    (by rw [hs]; simp; omega)
  simp only [hvt]
  have haa := arrayArgs_slotToks ty (widthOfType ty) f canon xs { s with toks := tk .rab [62] :: rest } hval hfresh
  simp only [haa]
  unfold dispatch at hmk
  simp only [hmk, ofFactory]


theorem sizeTok_bounds (n : Nat) (h : n < 2 ^ 63) : sizeBounds (sizeTok n).val = ((n : Int), (n : Int)) := by
  have := C15.bounds_exact n h
  simpa [sizeTok, tk] using this

/-- parseDataItem after `<` for an array item printed as `T[n] v … v>` -/
theorem itemBody_array {α} (ll : PS → R Tmpl × PS) (ty : Bytes) (f : α → Tok) (canon : α → GoVal)
    (xs : List (Slot α)) (t : Tmpl) (s : PS) (rest : List Tok)
    (hs : s.toks = tk .itemType ty :: sizeTok xs.length :: (slotToks f xs ++ tk .rab [62] :: rest))
    (hL : (ty == [76]) = false) (hA : (ty == [65]) = false)
    (hlen : xs.length < 2 ^ 63) (hsize : t.size = (xs.length : Int)) (hskip : s.skipSize = false)
    (hkind : ∀ a, Slot.val a ∈ xs → isValueKind (f a).kind = true)
    (hval : ∀ a, Slot.val a ∈ xs → (f a).kind ≠ .error ∧ ∀ s' : PS, arrayArg ty (widthOfType ty) s' (f a) = some (canon a, s'))
    (hfresh : Fresh (slotVars xs) s.names)
    (hmk : dispatch ty (widthOfType ty) (xs.map (argOf canon)) = some t) :
    itemBody ll s = (.ok t, { s with toks := rest, names := (slotVars xs).reverse ++ s.names }) := by
  unfold itemBody
  have hp1 : s.peek = tk .itemType ty := by simp [PS.peek, hs]
  have hpop1 : s.pop.toks = sizeTok xs.length :: (slotToks f xs ++ tk .rab [62] :: rest) := by simp [PS.pop, hs]
  have hp2 : s.pop.peek = sizeTok xs.length := by simp [PS.peek, hpop1]
  have hpop2 : s.pop.pop.toks = slotToks f xs ++ tk .rab [62] :: rest := by simp [PS.pop, hs]
  simp only [hp1, hp2]
  have hk1 : ((tk Kind.itemType ty).kind != Kind.itemType) = false := rfl
  have hk2 : ((sizeTok xs.length).kind != Kind.itemSize && (sizeTok xs.length).kind == Kind.error) = false := rfl
  simp only [hk1, hk2, Bool.false_eq_true, if_false]
  have hsd : sizeDecl s.pop = (sizeTok xs.length, (xs.length : Int), (xs.length : Int), s.pop.pop) := by
    unfold sizeDecl
    simp only [hp2]
    have : ((sizeTok xs.length).kind == Kind.itemSize) = true := rfl
    simp only [this, if_true, sizeTok_bounds xs.length hlen]
  have hty : (tk Kind.itemType ty).val = ty := rfl
  simp only [hsd, hty, hL, hA, Bool.false_eq_true, if_false]
  have hai := arrayItem_toks ty f canon xs t s.pop.pop rest hpop2 hkind hval (by simpa [PS.pop] using hfresh) hmk
  simp only [hai]
  unfold closeItem
  simp only [hsize]
  have hok : sizeOk (xs.length : Int) (xs.length : Int) (xs.length : Int) = true := by simp [sizeOk]
  have hsk : ({ s.pop.pop with toks := tk Kind.rab [62] :: rest, names := (slotVars xs).reverse ++ s.pop.pop.names } : PS).skipSize = false := by
    simpa [PS.pop] using hskip
  simp only [hok, hsk, Bool.not_true, Bool.and_false, Bool.false_eq_true, if_false]
  unfold closeTail
  simp only [PS.clearSkip, PS.peek, tk]
  have hrab : (Kind.rab != Kind.rab) = false := rfl
  cases s
  simp_all [PS.pop]


/-! ### the factories give a well-formed node back from its own slots -/

theorem argOf_eq_subst {α} (canon : α → GoVal) (xs : List (Slot α)) :
    xs.map (argOf canon) = xs.map (FillLeaf.substSlot canon []) := by
  apply List.map_congr_left
  intro x _
  cases x <;> rfl

theorem rebuild_int (w : Nat) (xs : List (Slot Int)) (hw : (Tmpl.int w xs).wf = true) :
    mkInt w (xs.map (argOf (.sint 64))) = some (.int w xs) := by
  rw [argOf_eq_subst]; exact FillLeaf.rebuild_int w xs hw

theorem slotsOk_mem {α} (p : α → Bool) (xs : List (Slot α)) (h : slotsOk p xs = true) :
    (∀ a, Slot.val a ∈ xs → p a = true) ∧ (∀ n, Slot.var n ∈ xs → isValidVarName n = true) := by
  simp only [slotsOk, Bool.and_eq_true, List.all_eq_true] at h
  exact ⟨fun a ha => h.1 _ ha, fun n hn => h.1 _ hn⟩

theorem rebuild_uint (w : Nat) (xs : List (Slot Nat)) (hw : (Tmpl.uint w xs).wf = true) :
    mkUint w (xs.map (argOf (.uint 64))) = some (.uint w xs) := by
  simp only [Tmpl.wf, Bool.and_eq_true, decide_eq_true_eq] at hw
  obtain ⟨⟨hwv, hmax⟩, hok⟩ := hw
  have hwidth : optWidth (uintFmt? w) = w := by
    simp only [validWidthInt, Bool.or_eq_true, beq_iff_eq] at hwv
    rcases hwv with ((rfl | rfl) | rfl) | rfl <;> rfl
  have hs := rebuild_slots convUint (.uint 64) xs (fun a _ => rfl) (fun n _ => rfl)
  unfold mkUint
  simp only [hwidth, List.length_map, hs]
  have : ¬ xs.length * w > maxByteSize := by omega
  simp [this, hwv, hok]

theorem rebuild_bool (xs : List (Slot Bool)) (hw : (Tmpl.boolean xs).wf = true) :
    mkBoolean (xs.map (argOf .bool)) = some (.boolean xs) := by
  simp only [Tmpl.wf, Bool.and_eq_true, decide_eq_true_eq] at hw
  obtain ⟨hmax, hok⟩ := hw
  have hs := rebuild_slots convBool .bool xs (fun a _ => rfl) (fun n _ => rfl)
  unfold mkBoolean
  simp only [List.length_map, hs]
  have : ¬ xs.length > maxByteSize := by omega
  simp [this, hok]

theorem valid_not_0b (n : Name) (h : isValidVarName n = true) : hasPrefix [48, 98] n = false := by
  cases n with
  | nil => rfl
  | cons b r =>
    simp only [isValidVarName, Bool.and_eq_true] at h
    have hb : b ≠ 48 := by
      intro hb; subst hb
      have := h.1
      simp [isIdentStartB, isAlphaB, isUpperB, isLowerB] at this
    cases r with
    | nil => simp [hasPrefix]
    | cons c r' => simp [hasPrefix, hb]

theorem rebuild_binary (xs : List (Slot Nat)) (hw : (Tmpl.binary xs).wf = true) :
    mkBinary (xs.map (argOf (fun (v : Nat) => .sint 0 v))) = some (.binary xs) := by
  simp only [Tmpl.wf, Bool.and_eq_true, decide_eq_true_eq] at hw
  obtain ⟨hmax, hok⟩ := hw
  obtain ⟨hv, hn⟩ := slotsOk_mem _ xs hok
  -- the intermediate slot lists
  let xs1 : List (Slot (Option Int)) := xs.map (fun s => match s with | .val v => .val (some (v : Int)) | .var n => .var n)
  have hs : mkSlots convBinary (xs.map (argOf (fun (v : Nat) => GoVal.sint 0 v))) = some xs1 := by
    have := rebuild_slots convBinary (fun (o : Option Int) => match o with | some v => GoVal.sint 0 v | none => .other) xs1
      (by
        intro a ha
        simp only [xs1, List.mem_map] at ha
        obtain ⟨sl, _, hsl⟩ := ha
        cases sl with
        | val v => simp at hsl; subst hsl; rfl
        | var n => simp at hsl)
      (by
        intro n hn'
        simp only [xs1, List.mem_map] at hn'
        obtain ⟨sl, hmem, hsl⟩ := hn'
        cases sl with
        | val v => simp at hsl
        | var m =>
          simp at hsl; subst hsl
          simp [convBinary, valid_not_0b m (hn m hmem)])
    have e : xs1.map (argOf (fun (o : Option Int) => match o with | some v => GoVal.sint 0 v | none => .other)) =
        xs.map (argOf (fun (v : Nat) => GoVal.sint 0 v)) := by
      simp only [xs1, List.map_map]
      apply List.map_congr_left
      intro x _
      cases x <;> rfl
    rw [e] at this
    exact this
  unfold mkBinary
  simp only [List.length_map, hs]
  have h1 : ¬ xs.length > maxByteSize := by omega
  have h2 : xs1.any slotRefused = false := by
    simp only [xs1, List.any_map, List.any_eq_false]
    intro x _
    cases x <;> simp [slotRefused]
  have h3 : xs1.map (slotUnwrap 0) = xs.map (fun s => match s with | .val v => Slot.val (v : Int) | .var n => .var n) := by
    simp only [xs1, List.map_map]
    apply List.map_congr_left
    intro x _
    cases x <;> rfl
  have h4 : slotsOk (fun (v : Int) => decide (0 ≤ v) && decide (v < 256))
      (xs.map (fun s => match s with | .val v => Slot.val (v : Int) | .var n => .var n)) = true := by
    simp only [slotsOk, Bool.and_eq_true, List.all_eq_true] at hok ⊢
    refine ⟨?_, ?_⟩
    · intro sl hsl
      simp only [List.mem_map] at hsl
      obtain ⟨x, hx, rfl⟩ := hsl
      cases x with
      | val v =>
        have := hok.1 _ hx
        simp only [decide_eq_true_eq] at this
        simp; omega
      | var n => exact hok.1 _ hx
    · have e : slotVars (xs.map (fun s => match s with | .val v => Slot.val (v : Int) | .var n => .var n)) = slotVars xs := by
        clear hok hv hn hs h2 h3 hmax h1
        induction xs with
        | nil => rfl
        | cons x r ih => cases x <;> simp [slotVars, ih]
      rw [e]; exact hok.2
  simp only [h1, if_false, h2, Bool.false_eq_true, h3, h4, if_true]
  congr 2
  rw [List.map_map]
  conv => rhs; rw [← List.map_id xs]
  apply List.map_congr_left
  intro x _
  cases x <;> simp


/-! ### the four array kinds without floats -/

theorem decDigits_small (w : Nat) (h : w < 10) : decDigits w = [48 + w] := by
  rw [decDigits]; simp [h]

theorem str_0b : str "0b" = [48, 98] := by decide +kernel

theorem arrayArg_int (w : Nat) (hw : w = 1 ∨ w = 2 ∨ w = 4 ∨ w = 8) (v : Int) (hv : intInRange w v = true) (s : PS) :
    arrayArg (73 :: decDigits w) w s (tk .number (intDec v)) = some (.sint 64 v, s) := by
  have hp := parseInt_intDec v w hw
    (by rcases hw with h | h | h | h <;> subst h <;> simp [intInRange] at hv ⊢ <;> omega)
    (by rcases hw with h | h | h | h <;> subst h <;> simp [intInRange] at hv ⊢ <;> omega)
  have hd : decDigits w = [48 + w] := decDigits_small w (by omega)
  unfold arrayArg
  simp only [tk, hd, hp, numErrKind]
  rcases hw with h | h | h | h <;> subst h <;> rfl

theorem arrayArg_uint (w : Nat) (hw : w = 1 ∨ w = 2 ∨ w = 4 ∨ w = 8) (v : Nat) (hv : uintInRange w v = true) (s : PS) :
    arrayArg (85 :: decDigits w) w s (tk .number (decDigits v)) = some (.uint 64 v, s) := by
  have hp := parseUint_decDigits v (8 * w) (by rcases hw with h | h | h | h <;> subst h <;> simp)
    (by rcases hw with h | h | h | h <;> subst h <;> simp [uintInRange] at hv ⊢ <;> omega)
  have hd : decDigits w = [48 + w] := decDigits_small w (by omega)
  unfold arrayArg
  simp only [tk, hd, hp, numErrKind]
  rcases hw with h | h | h | h <;> subst h <;> rfl

theorem arrayArg_bool (b : Bool) (s : PS) :
    arrayArg [66, 79, 79, 76, 69, 65, 78] 0 s (tk .bool (printBool b)) = some (.bool b, s) := by
  cases b <;> rfl

theorem arrayArg_binary (v : Nat) (hv : v < 256) (s : PS) :
    arrayArg [66] 0 s (tk .number (printBin v)) = some (.sint 0 v, s) := by
  have hp := parseInt_bin v (by omega)
  unfold arrayArg
  simp only [tk, printBin, str_0b, hp]
  have h1 : ¬ ((v : Int) < 0 ∨ 256 ≤ (v : Int)) := by omega
  simp [h1]
  omega

theorem widthOfType_int (w : Nat) (hw : w = 1 ∨ w = 2 ∨ w = 4 ∨ w = 8) (c : Nat) : widthOfType (c :: decDigits w) = w := by
  rw [decDigits_small w (by omega)]
  simp [widthOfType]


/-! ### ASCII items -/

theorem asciiSegs_value : ∀ (r run : Bytes), ∀ t ∈ asciiSegs run r, isValueKind t.kind = true := by
  intro r
  induction r with
  | nil =>
    intro run t ht
    simp only [asciiSegs] at ht
    split at ht
    · simp at ht
    · simp only [List.mem_singleton] at ht; subst ht; rfl
  | cons ch r ih =>
    intro run t ht
    simp only [asciiSegs] at ht
    split at ht
    · simp only [List.mem_append, List.mem_cons] at ht
      rcases ht with ht | ht | ht
      · split at ht
        · simp at ht
        · simp only [List.mem_singleton] at ht; subst ht; rfl
      · subst ht; rfl
      · exact ih [] t ht
    · exact ih _ t ht

theorem asciiLoop_quoted (mn mx : Int) (n : Nat) (run lit : Bytes) (more : List Tok) (st : PS)
    (hrun : ∀ c ∈ run, c < 128) :
    asciiLoop mn mx n (tk .quoted (34 :: (run ++ [34])) :: more) lit st = asciiLoop mn mx n more (lit ++ run) st := by
  have hin : List.take ((34 :: (run ++ [34])).length - 2) (List.drop 1 (34 :: (run ++ [34]))) = run := by simp
  have hall : run.all (· < 128) = true := by simpa using hrun
  rw [asciiLoop]
  simp only [tk, hin, hall, if_true]

theorem asciiLoop_code (mn mx : Int) (n : Nat) (ch : Nat) (hch : ch < 128) (lit : Bytes) (more : List Tok) (st : PS) :
    asciiLoop mn mx n (tk .number (48 :: 120 :: hex2 ch) :: more) lit st = asciiLoop mn mx n more (lit ++ [ch]) st := by
  have hcode : parseUint (48 :: 120 :: hex2 ch) 0 0 = ⟨ch, none⟩ := by
    have := parseUint_hexcode ⟨ch, hch⟩
    simpa [hex2] using this
  rw [asciiLoop]
  simp only [tk, hcode]
  have h1 : ¬ (ch > 127) := by omega
  simp [h1]

/-- the ASCII loop over the printed literal tokens appends exactly the characters -/
theorem asciiLoop_segs (mn mx : Int) (n : Nat) : ∀ (r run lit : Bytes) (more : List Tok) (st : PS),
    (∀ c ∈ run, c < 128) → (∀ c ∈ r, c < 128) →
    asciiLoop mn mx n (asciiSegs run r ++ more) lit st = asciiLoop mn mx n more (lit ++ run ++ r) st := by
  intro r
  induction r with
  | nil =>
    intro run lit more st hrun _
    simp only [asciiSegs]
    by_cases he : run.isEmpty = true
    · have : run = [] := by simpa using he
      subst this
      simp
    · rw [if_neg he]
      show asciiLoop mn mx n (tk .quoted (34 :: (run ++ [34])) :: more) lit st = _
      rw [asciiLoop_quoted mn mx n run lit more st hrun]
      simp
  | cons ch r ih =>
    intro run lit more st hrun hr
    have hch : ch < 128 := hr ch (by simp)
    have hr' : ∀ c ∈ r, c < 128 := fun c hc => hr c (by simp [hc])
    simp only [asciiSegs]
    by_cases hcode : asciiIsCode ch = true
    · rw [if_pos hcode]
      by_cases he : run.isEmpty = true
      · have : run = [] := by simpa using he
        subst this
        simp only [List.isEmpty_nil, if_true, List.nil_append, List.cons_append, List.append_nil]
        rw [asciiLoop_code mn mx n ch hch, ih [] (lit ++ [ch]) more st (by simp) hr']
        simp
      · rw [if_neg he]
        show asciiLoop mn mx n (tk .quoted (34 :: (run ++ [34])) :: (tk .number (48 :: 120 :: hex2 ch) :: asciiSegs [] r ++ more)) lit st = _
        rw [asciiLoop_quoted mn mx n run lit _ st hrun]
        show asciiLoop mn mx n (tk .number (48 :: 120 :: hex2 ch) :: (asciiSegs [] r ++ more)) (lit ++ run) st = _
        rw [asciiLoop_code mn mx n ch hch, ih [] (lit ++ run ++ [ch]) more st (by simp) hr']
        simp
    · rw [if_neg hcode]
      rw [ih (run ++ [ch]) lit more st
        (by intro c hc; rcases List.mem_append.mp hc with h | h
            · exact hrun c h
            · simp at h; omega)
        hr']
      simp


theorem mkAscii_wf (str : Bytes) (hw : (Tmpl.ascii str).wf = true) : mkAscii str = some (.ascii str) := by
  simp only [Tmpl.wf, Bool.and_eq_true, decide_eq_true_eq] at hw
  unfold mkAscii
  have : ¬ str.length > maxByteSize := by omega
  simp [this, hw.2]

/-- `A "…" 0xNN …>` after the `<` -/
theorem itemBody_ascii (ll : PS → R Tmpl × PS) (str : Bytes) (hne : str ≠ []) (hw : (Tmpl.ascii str).wf = true)
    (s : PS) (rest : List Tok)
    (hs : s.toks = tk .itemType [65] :: (asciiSegs [] str ++ tk .rab [62] :: rest)) (hskip : s.skipSize = false) :
    itemBody ll s = (.ok (.ascii str), { s with toks := rest }) := by
  have hall : ∀ c ∈ str, c < 128 := by
    simp only [Tmpl.wf, Bool.and_eq_true, List.all_eq_true, decide_eq_true_eq] at hw
    exact hw.2
  unfold itemBody
  have hp1 : s.peek = tk .itemType [65] := by simp [PS.peek, hs]
  have hpop1 : s.pop.toks = asciiSegs [] str ++ tk .rab [62] :: rest := by simp [PS.pop, hs]
  -- the token after the type is a value token or `>`: never a size, never an error
  have hpk : s.pop.peek.kind ≠ .itemSize ∧ s.pop.peek.kind ≠ .error := by
    have hv := asciiSegs_value str []
    cases hseg : asciiSegs [] str with
    | nil =>
      have : s.pop.peek = tk .rab [62] := by simp [PS.peek, hpop1, hseg]
      rw [this]; exact ⟨by decide, by decide⟩
    | cons t ts =>
      have : s.pop.peek = t := by simp [PS.peek, hpop1, hseg]
      rw [this]
      have := hv t (by rw [hseg]; simp)
      constructor <;> (intro h; rw [h] at this; revert this; decide)
  simp only [hp1]
  have hk1 : ((tk Kind.itemType [65]).kind != Kind.itemType) = false := rfl
  have hk2 : (s.pop.peek.kind != Kind.itemSize && s.pop.peek.kind == Kind.error) = false := by
    cases hk : s.pop.peek.kind <;> first | rfl | exact absurd hk hpk.2
  simp only [hk1, hk2, Bool.false_eq_true, if_false]
  have hsd : sizeDecl s.pop = (dummyTok, 0, -1, s.pop) := by
    unfold sizeDecl
    have : (s.pop.peek.kind == Kind.itemSize) = false := by
      cases hk : s.pop.peek.kind <;> first | rfl | exact absurd hk hpk.1
    simp only [this, Bool.false_eq_true, if_false]
  have hty : (tk Kind.itemType [65]).val = [65] := rfl
  simp only [hsd, hty]
  have hL : (([65] : Bytes) == [76]) = false := by decide
  have hA : (([65] : Bytes) == [65]) = true := by decide
  simp only [hL, hA, Bool.false_eq_true, if_false, if_true]
  unfold asciiItem
  have hvt := valueTokens_values (s.pop.toks.length + 1) (asciiSegs [] str) rest s.pop (asciiSegs_value str []) hpop1
    (by rw [hpop1]; simp; omega)
  simp only [hvt]
  have hloop := asciiLoop_segs 0 (-1) (asciiSegs [] str).length str [] [] [] { s.pop with toks := tk .rab [62] :: rest } (by simp) hall
  simp only [List.append_nil, List.nil_append] at hloop
  rw [hloop]
  simp only [asciiLoop, mkAscii_wf str hw, ofFactory]
  unfold closeItem
  have hsz : (Tmpl.ascii str).size = (str.length : Int) := rfl
  have hok : sizeOk (str.length : Int) 0 (-1) = true := by simp [sizeOk]
  simp only [hsz, hok, Bool.not_true, Bool.and_false, Bool.false_eq_true, if_false]
  unfold closeTail
  simp only [PS.clearSkip, PS.peek, tk]
  have hrab : (Kind.rab != Kind.rab) = false := rfl
  cases s
  simp_all [PS.pop]


/-- `A[0]>` after the `<` -/
theorem itemBody_ascii_empty (ll : PS → R Tmpl × PS) (s : PS) (rest : List Tok)
    (hs : s.toks = tk .itemType [65] :: sizeTok 0 :: tk .rab [62] :: rest) (hskip : s.skipSize = false) :
    itemBody ll s = (.ok (.ascii []), { s with toks := rest }) := by
  unfold itemBody
  have hp1 : s.peek = tk .itemType [65] := by simp [PS.peek, hs]
  have hp2 : s.pop.peek = sizeTok 0 := by simp [PS.peek, PS.pop, hs]
  have hpop2 : s.pop.pop.toks = tk .rab [62] :: rest := by simp [PS.pop, hs]
  simp only [hp1, hp2]
  have hk1 : ((tk Kind.itemType [65]).kind != Kind.itemType) = false := rfl
  have hk2 : ((sizeTok 0).kind != Kind.itemSize && (sizeTok 0).kind == Kind.error) = false := rfl
  simp only [hk1, hk2, Bool.false_eq_true, if_false]
  have hsd : sizeDecl s.pop = (sizeTok 0, (0 : Int), (0 : Int), s.pop.pop) := by
    unfold sizeDecl
    simp only [hp2]
    have : ((sizeTok 0).kind == Kind.itemSize) = true := rfl
    have hb := sizeTok_bounds 0 (by decide)
    simp only [this, if_true, hb]
    rfl
  have hty : (tk Kind.itemType [65]).val = [65] := rfl
  simp only [hsd, hty]
  have hL : (([65] : Bytes) == [76]) = false := by decide
  have hA : (([65] : Bytes) == [65]) = true := by decide
  simp only [hL, hA, Bool.false_eq_true, if_false, if_true]
  unfold asciiItem
  have hvt := valueTokens_values (s.pop.pop.toks.length + 1) [] rest s.pop.pop (by simp) (by simpa using hpop2) (by simp)
  simp only [hvt]
  have hmk : mkAscii [] = some (.ascii []) := rfl
  simp only [asciiLoop, hmk, ofFactory]
  unfold closeItem
  have hsz : (Tmpl.ascii []).size = 0 := rfl
  have hok : sizeOk 0 0 0 = true := by decide
  simp only [hsz, hok, Bool.not_true, Bool.and_false, Bool.false_eq_true, if_false]
  unfold closeTail
  simp only [PS.clearSkip, PS.peek, tk]
  have hrab : (Kind.rab != Kind.rab) = false := rfl
  cases s
  simp_all [PS.pop]

/-- the declared bounds of an ASCII variable, as printed, read back as themselves -/
theorem printedBounds_read (mn mx : Int) (h0 : 0 ≤ mn) (h1 : -1 ≤ mx) (hle : mx = -1 ∨ mn ≤ mx)
    (hmn : mn < 2 ^ 63) (hmx : mx < 2 ^ 63) (hne : ¬ (mn = 0 ∧ mx = -1)) :
    sizeBounds (printSizeBounds mn mx) = (mn, mx) := by
  rw [C15.printed_bounds, if_neg hne]
  have hd : ∀ v : Int, 0 ≤ v → intDec v = decDigits v.toNat := natAbs_intDec_nonneg
  by_cases h2 : mn = mx
  · rw [if_pos h2]
    subst h2
    rw [hd mn h0]
    have := C15.bounds_exact mn.toNat (by omega)
    simp only [List.cons_append, List.nil_append] at this ⊢
    rw [this]
    simp; omega
  · rw [if_neg h2]
    by_cases h3 : mx = -1
    · rw [if_pos h3]
      subst h3
      rw [hd mn h0]
      have := C15.bounds_from mn.toNat (by omega)
      simp only [List.cons_append, List.nil_append, List.append_assoc] at this ⊢
      rw [this]
      simp; omega
    · rw [if_neg h3]
      have hmx0 : 0 ≤ mx := by omega
      rw [hd mn h0, hd mx hmx0]
      have := C15.bounds_range mn.toNat mx.toNat (by omega) (by omega)
      simp only [List.cons_append, List.nil_append, List.append_assoc] at this ⊢
      rw [this]
      simp; omega


theorem mkAsciiVar_wf (n : Name) (mn mx : Int) (hw : (Tmpl.asciiVar n mn mx).wf = true) :
    mkAsciiVar n mn mx = some (.asciiVar n mn mx) := by
  rw [C12.ascii_var_exact]
  simp only [Tmpl.wf, Bool.and_eq_true, decide_eq_true_eq, Bool.or_eq_true, beq_iff_eq] at hw
  rw [if_pos ⟨hw.1.1.1, hw.1.1.2, hw.1.2, hw.2⟩]

/-- the tail shared by both spellings of an ASCII variable: `name >` with the bounds known -/
theorem asciiVar_tail (n : Name) (mn mx : Int) (hw : (Tmpl.asciiVar n mn mx).wf = true) (sizeT : Tok)
    (s : PS) (rest : List Tok) (hs : s.toks = tk .variable n :: tk .rab [62] :: rest)
    (hfresh : s.names.contains n = false) :
    closeItem sizeT mn mx (asciiItem mn mx s).1 (asciiItem mn mx s).2 =
      (.ok (.asciiVar n mn mx), { s with toks := rest, names := n :: s.names, skipSize := false }) := by
  unfold asciiItem
  have hvt := valueTokens_values (s.toks.length + 1) [tk .variable n] rest s
    (by intro t ht; simp at ht; subst ht; rfl) (by simpa using hs) (by rw [hs]; simp)
  simp only [hvt]
  simp only [asciiLoop, tk, List.length_singleton, bne_self_eq_false, Bool.false_eq_true, if_false, hfresh,
    mkAsciiVar_wf n mn mx hw, ofFactory]
  unfold closeItem
  have hsz : (Tmpl.asciiVar n mn mx).size = -1 := rfl
  simp only [hsz]
  have hneg : (decide ((-1 : Int) ≥ 0)) = false := by decide
  simp only [hneg, Bool.false_and, Bool.false_eq_true, if_false]
  unfold closeTail
  simp only [PS.clearSkip, PS.peek]
  have hrab : (Kind.rab != Kind.rab) = false := rfl
  cases s
  simp_all [PS.pop]

/-- `A[bounds] name>` after the `<` -/
theorem itemBody_asciiVar (ll : PS → R Tmpl × PS) (n : Name) (mn mx : Int) (hw : (Tmpl.asciiVar n mn mx).wf = true)
    (hmn : mn < 2 ^ 63) (hmx : mx < 2 ^ 63) (s : PS) (rest : List Tok)
    (hs : s.toks = tk .itemType [65] :: (boundsToks mn mx ++ [tk .variable n, tk .rab [62]] ++ rest))
    (hfresh : s.names.contains n = false) :
    itemBody ll s = (.ok (.asciiVar n mn mx), { s with toks := rest, names := n :: s.names, skipSize := false }) := by
  have hwf := hw
  simp only [Tmpl.wf, Bool.and_eq_true, decide_eq_true_eq, Bool.or_eq_true, beq_iff_eq] at hwf
  unfold itemBody
  have hp1 : s.peek = tk .itemType [65] := by simp [PS.peek, hs]
  simp only [hp1]
  have hk1 : ((tk Kind.itemType [65]).kind != Kind.itemType) = false := rfl
  have hty : (tk Kind.itemType [65]).val = [65] := rfl
  have hL : (([65] : Bytes) == [76]) = false := by decide
  have hA : (([65] : Bytes) == [65]) = true := by decide
  simp only [hk1, Bool.false_eq_true, if_false, hty, hL, hA, if_true]
  by_cases hb : mn = 0 ∧ mx = -1
  · -- no declaration printed
    have hbt : boundsToks mn mx = [] := by simp [boundsToks, hb.1, hb.2]
    have hpop1 : s.pop.toks = tk .variable n :: tk .rab [62] :: rest := by simp [PS.pop, hs, hbt]
    have hp2 : s.pop.peek = tk .variable n := by simp [PS.peek, hpop1]
    have hk2 : (s.pop.peek.kind != Kind.itemSize && s.pop.peek.kind == Kind.error) = false := by rw [hp2]; rfl
    have hsd : sizeDecl s.pop = (dummyTok, 0, -1, s.pop) := by
      unfold sizeDecl
      rw [hp2]
      rfl
    simp only [hk2, Bool.false_eq_true, if_false, hsd]
    have := asciiVar_tail n mn mx hw dummyTok s.pop rest hpop1 (by simpa [PS.pop] using hfresh)
    rw [hb.1, hb.2] at this
    rw [this, hb.1, hb.2]
    cases s; rfl
  · have hbt : boundsToks mn mx = [tk .itemSize (printSizeBounds mn mx)] := by
      unfold boundsToks
      have : (mn == 0 && mx == -1) = false := by
        simp only [Bool.and_eq_false_iff, beq_eq_false_iff_ne, ne_eq]; omega
      simp [this]
    have hpop1 : s.pop.toks = tk .itemSize (printSizeBounds mn mx) :: tk .variable n :: tk .rab [62] :: rest := by
      simp [PS.pop, hs, hbt]
    have hp2 : s.pop.peek = tk .itemSize (printSizeBounds mn mx) := by simp [PS.peek, hpop1]
    have hpop2 : s.pop.pop.toks = tk .variable n :: tk .rab [62] :: rest := by simp [PS.pop, hs, hbt]
    have hk2 : (s.pop.peek.kind != Kind.itemSize && s.pop.peek.kind == Kind.error) = false := by rw [hp2]; rfl
    have hsd : sizeDecl s.pop = (tk .itemSize (printSizeBounds mn mx), mn, mx, s.pop.pop) := by
      unfold sizeDecl
      rw [hp2]
      have hk : ((tk Kind.itemSize (printSizeBounds mn mx)).kind == Kind.itemSize) = true := rfl
      have hv : (tk Kind.itemSize (printSizeBounds mn mx)).val = printSizeBounds mn mx := rfl
      simp only [hk, if_true, hv, printedBounds_read mn mx hwf.1.1.2 hwf.1.2 hwf.2 hmn hmx hb]
    simp only [hk2, Bool.false_eq_true, if_false, hsd]
    have := asciiVar_tail n mn mx hw (tk .itemSize (printSizeBounds mn mx)) s.pop.pop rest hpop2 (by simpa [PS.pop] using hfresh)
    rw [this]
    cases s; rfl


/-! ### whole trees -/

-- the trees the printed form can express and the parser half is proved for: no error
-- placeholder inside, no float item (their literals are read by the library's ParseFloat),
-- ASCII bounds that fit a Go int
mutual
def cleanT : Tmpl → Bool
  | .list xs => cleanS xs
  | .asciiVar _ mn mx => decide (mn < 2 ^ 63) && decide (mx < 2 ^ 63)
  | .float _ _ => false
  | .empty => false
  | _ => true
def cleanS : Slots → Bool
  | .nil => true
  | .item t r => cleanT t && cleanS r
  | .var _ r => cleanS r
end

-- the ellipsis counter after the tree, when its ellipses are numbered in order of appearance
-- starting from `k` (the numbering the parser assigns)
mutual
def ellAfter (k : Nat) : Tmpl → Option Nat
  | .list xs => ellAfterS k xs
  | _ => some k
def ellAfterS (k : Nat) : Slots → Option Nat
  | .nil => some k
  | .item t r => (ellAfter k t).bind (fun k' => ellAfterS k' r)
  | .var n r =>
    if isEllipsis n then (if n == [46, 46, 46, 91] ++ decDigits k ++ [93] then ellAfterS (k + 1) r else none)
    else ellAfterS k r
end

-- the parser's name table after the tree
mutual
def namesAfter (names : List Name) : Tmpl → List Name
  | .list xs => namesAfterS names xs
  | .asciiVar n _ _ => n :: names
  | .binary xs => (slotVars xs).reverse ++ names
  | .boolean xs => (slotVars xs).reverse ++ names
  | .int _ xs => (slotVars xs).reverse ++ names
  | .uint _ xs => (slotVars xs).reverse ++ names
  | .float _ xs => (slotVars xs).reverse ++ names
  | _ => names
def namesAfterS (names : List Name) : Slots → List Name
  | .nil => names
  | .item t r => namesAfterS (namesAfter names t) r
  | .var n r => if isEllipsis n then namesAfterS names r else namesAfterS (n :: names) r
end

def slotArgs : Slots → List GoVal
  | .nil => []
  | .item t r => .item t :: slotArgs r
  | .var n r => .str n :: slotArgs r

theorem mkListSlots_slotArgs : ∀ xs : Slots, mkListSlots (slotArgs xs) = some xs
  | .nil => rfl
  | .item t r => by simp [slotArgs, mkListSlots, mkListSlots_slotArgs r]
  | .var n r => by simp [slotArgs, mkListSlots, mkListSlots_slotArgs r]

theorem slotArgs_length : ∀ xs : Slots, (slotArgs xs).length = xs.len
  | .nil => rfl
  | .item t r => by simp [slotArgs, Slots.len, slotArgs_length r]
  | .var n r => by simp [slotArgs, Slots.len, slotArgs_length r]

theorem mkList_wf (xs : Slots) (hw : (Tmpl.list xs).wf = true) : mkList (slotArgs xs) = some (.list xs) := by
  simp only [Tmpl.wf, Bool.and_eq_true, decide_eq_true_eq] at hw
  unfold mkList
  have : ¬ (slotArgs xs).length > maxByteSize := by rw [slotArgs_length]; omega
  simp [this, mkListSlots_slotArgs, hw.1.2, hw.2]


theorem slotsToks_head_kind : ∀ xs : Slots, cleanS xs = true →
    ∀ t ts, slotsToks xs = t :: ts → (t.kind = .lab ∨ t.kind = .variable ∨ t.kind = .ellipsis)
  | .nil, _, t, ts, h => by simp [slotsToks] at h
  | .item it r, hc, t, ts, h => by
    simp only [cleanS, Bool.and_eq_true] at hc
    cases it with
    | empty => simp [cleanT] at hc
    | list ys => simp [slotsToks, itemToks] at h; left; rw [← h.1]; rfl
    | ascii str =>
      simp only [slotsToks, itemToks] at h
      split at h <;> (simp at h; left; rw [← h.1]; rfl)
    | asciiVar n mn mx => simp [slotsToks, itemToks] at h; left; rw [← h.1]; rfl
    | binary zs => simp [slotsToks, itemToks, arrayToks] at h; left; rw [← h.1]; rfl
    | boolean zs => simp [slotsToks, itemToks, arrayToks] at h; left; rw [← h.1]; rfl
    | int w zs => simp [slotsToks, itemToks, arrayToks] at h; left; rw [← h.1]; rfl
    | uint w zs => simp [slotsToks, itemToks, arrayToks] at h; left; rw [← h.1]; rfl
    | float w zs => simp [cleanT] at hc
  | .var n r, _, t, ts, h => by
    simp only [slotsToks] at h
    split at h
    · simp at h; right; right; rw [← h.1]; rfl
    · simp at h; right; left; rw [← h.1]; rfl

/-- `L[n] … >` after the `<`, given what the list loop does on the element tokens -/
theorem itemBody_list (ll : PS → R Tmpl × PS) (xs : Slots) (hw : (Tmpl.list xs).wf = true) (hc : cleanS xs = true)
    (s : PS) (rest : List Tok) (st : PS)
    (hs : s.toks = tk .itemType [76] :: ((if xs.hasVar then [] else [sizeTok xs.len]) ++ slotsToks xs ++ tk .rab [62] :: rest))
    (hll : ll { s with toks := slotsToks xs ++ tk .rab [62] :: rest } =
      (ofFactory (mkList (slotArgs xs)), { st with toks := tk .rab [62] :: rest }))
    (hst : st.skipSize = false) :
    itemBody ll s = (.ok (.list xs), { st with toks := rest }) := by
  have hlen : xs.len < 2 ^ 63 := by
    simp only [Tmpl.wf, Bool.and_eq_true, decide_eq_true_eq] at hw
    have := hw.1.1.1
    unfold maxByteSize at this
    omega
  have hmk := mkList_wf xs hw
  unfold itemBody
  have hp1 : s.peek = tk .itemType [76] := by simp [PS.peek, hs]
  simp only [hp1]
  have hk1 : ((tk Kind.itemType [76]).kind != Kind.itemType) = false := rfl
  have hty : (tk Kind.itemType [76]).val = [76] := rfl
  have hL : (([76] : Bytes) == [76]) = true := by decide
  simp only [hk1, Bool.false_eq_true, if_false, hty, hL, if_true]
  have hsz : (Tmpl.list xs).size = (xs.len : Int) := rfl
  have hrab : (Kind.rab != Kind.rab) = false := rfl
  by_cases hv : xs.hasVar = true
  · -- no size declaration printed
    have hpop1 : s.pop.toks = slotsToks xs ++ tk .rab [62] :: rest := by simp [PS.pop, hs, hv]
    have hpk : s.pop.peek.kind ≠ .itemSize ∧ s.pop.peek.kind ≠ .error := by
      cases hseg : slotsToks xs with
      | nil =>
        have : s.pop.peek = tk .rab [62] := by simp [PS.peek, hpop1, hseg]
        rw [this]; exact ⟨by decide, by decide⟩
      | cons t ts =>
        have : s.pop.peek = t := by simp [PS.peek, hpop1, hseg]
        rw [this]
        rcases slotsToks_head_kind xs hc t ts hseg with h | h | h <;> rw [h] <;> exact ⟨by decide, by decide⟩
    have hk2 : (s.pop.peek.kind != Kind.itemSize && s.pop.peek.kind == Kind.error) = false := by
      cases hk : s.pop.peek.kind <;> first | rfl | exact absurd hk hpk.2
    have hsd : sizeDecl s.pop = (dummyTok, 0, -1, s.pop) := by
      unfold sizeDecl
      have : (s.pop.peek.kind == Kind.itemSize) = false := by
        cases hk : s.pop.peek.kind <;> first | rfl | exact absurd hk hpk.1
      simp only [this, Bool.false_eq_true, if_false]
    have hstate : s.pop = { s with toks := slotsToks xs ++ tk .rab [62] :: rest } := by
      cases s; simp only [PS.pop] at hpop1 ⊢; simp_all
    simp only [hk2, Bool.false_eq_true, if_false, hsd]
    rw [hstate, hll]
    simp only [hmk, ofFactory]
    unfold closeItem
    have hok : sizeOk (xs.len : Int) 0 (-1) = true := by simp [sizeOk]
    simp only [hsz, hok, Bool.not_true, Bool.and_false, Bool.false_eq_true, if_false]
    unfold closeTail
    simp only [PS.clearSkip, PS.peek, tk]
    cases st
    simp_all [PS.pop]
  · have hv' : xs.hasVar = false := by simpa using hv
    have hpop1 : s.pop.toks = sizeTok xs.len :: (slotsToks xs ++ tk .rab [62] :: rest) := by simp [PS.pop, hs, hv']
    have hp2 : s.pop.peek = sizeTok xs.len := by simp [PS.peek, hpop1]
    have hk2 : (s.pop.peek.kind != Kind.itemSize && s.pop.peek.kind == Kind.error) = false := by rw [hp2]; rfl
    have hsd : sizeDecl s.pop = (sizeTok xs.len, (xs.len : Int), (xs.len : Int), s.pop.pop) := by
      unfold sizeDecl
      simp only [hp2]
      have : ((sizeTok xs.len).kind == Kind.itemSize) = true := rfl
      simp only [this, if_true, sizeTok_bounds xs.len hlen]
    have hstate : s.pop.pop = { s with toks := slotsToks xs ++ tk .rab [62] :: rest } := by
      cases s; simp only [PS.pop] at hpop1 ⊢; simp_all
    simp only [hk2, Bool.false_eq_true, if_false, hsd]
    rw [hstate, hll]
    simp only [hmk, ofFactory]
    unfold closeItem
    have hok : sizeOk (xs.len : Int) (xs.len : Int) (xs.len : Int) = true := by simp [sizeOk]
    simp only [hsz, hok, Bool.not_true, Bool.and_false, Bool.false_eq_true, if_false]
    unfold closeTail
    simp only [PS.clearSkip, PS.peek, tk]
    cases st
    simp_all [PS.pop]


-- every name of the tree is new where the parser meets it
mutual
def FreshT (names : List Name) : Tmpl → Prop
  | .list xs => FreshS names xs
  | .asciiVar n _ _ => names.contains n = false
  | .binary xs => Fresh (slotVars xs) names
  | .boolean xs => Fresh (slotVars xs) names
  | .int _ xs => Fresh (slotVars xs) names
  | .uint _ xs => Fresh (slotVars xs) names
  | .float _ xs => Fresh (slotVars xs) names
  | _ => True
def FreshS (names : List Name) : Slots → Prop
  | .nil => True
  | .item t r => FreshT names t ∧ FreshS (namesAfter names t) r
  | .var n r => if isEllipsis n then FreshS names r else (names.contains n = false ∧ FreshS (n :: names) r)
end

theorem itemToks_cons (t : Tmpl) (hc : cleanT t = true) : ∃ ts, itemToks t = tk .lab [60] :: ts := by
  cases t with
  | list xs => exact ⟨_, by rw [itemToks]; rfl⟩
  | ascii str =>
    by_cases h : str.isEmpty = true
    · exact ⟨_, by rw [itemToks, if_pos h]⟩
    · exact ⟨_, by rw [itemToks, if_neg h]; rfl⟩
  | asciiVar n mn mx => exact ⟨_, by rw [itemToks]; rfl⟩
  | binary zs => exact ⟨_, by rw [itemToks, arrayToks]; rfl⟩
  | boolean zs => exact ⟨_, by rw [itemToks, arrayToks]; rfl⟩
  | int w zs => exact ⟨_, by rw [itemToks, arrayToks]; rfl⟩
  | uint w zs => exact ⟨_, by rw [itemToks, arrayToks]; rfl⟩
  | float w zs => simp [cleanT] at hc
  | empty => simp [cleanT] at hc

/-- parseDataItem on the printed tokens of a leaf (non-list) item -/
theorem parseLeaf_toks (fuel : Nat) (t : Tmpl) (hleaf : t.isList = false) (hw : t.wf = true) (hc : cleanT t = true)
    (s : PS) (rest : List Tok) (hs : s.toks = itemToks t ++ rest) (hskip : s.skipSize = false)
    (hfresh : FreshT s.names t) :
    parseItemF (fuel + 1) s = (.ok t, { s with toks := rest, names := namesAfter s.names t }) := by
  obtain ⟨ts, hts⟩ := itemToks_cons t hc
  have hp : s.peek = tk .lab [60] := by simp [PS.peek, hs, hts]
  have hpop : s.pop.toks = ts ++ rest := by simp [PS.pop, hs, hts]
  unfold parseItemF
  simp only [hp]
  have hk : ((tk Kind.lab [60]).kind != Kind.lab) = false := rfl
  simp only [hk, Bool.false_eq_true, if_false]
  have hrec : ∀ (r : PS), recoverItem (tk Kind.lab [60]) (R.ok t, r) = (R.ok t, r) := fun r => rfl
  cases t with
  | list xs => simp [Tmpl.isList] at hleaf
  | empty => simp [cleanT] at hc
  | float w zs => simp [cleanT] at hc
  | ascii str =>
    by_cases he : str = []
    · subst he
      have hts' : ts = [tk .itemType [65], sizeTok 0, tk .rab [62]] := by simpa [itemToks] using hts.symm
      have := itemBody_ascii_empty (parseItemF.listLoop fuel 0 []) s.pop rest (by rw [hpop, hts']; rfl) (by simpa [PS.pop] using hskip)
      rw [this, hrec]
      cases s; rfl
    · have hne : str.isEmpty = false := by cases str <;> simp_all
      have hts' : ts = tk .itemType [65] :: (asciiSegs [] str ++ [tk .rab [62]]) := by
        simp only [itemToks, hne] at hts
        simpa using hts.symm
      have := itemBody_ascii (parseItemF.listLoop fuel 0 []) str he hw s.pop rest
        (by rw [hpop, hts']; simp) (by simpa [PS.pop] using hskip)
      rw [this, hrec]
      cases s; rfl
  | asciiVar n mn mx =>
    simp only [cleanT, Bool.and_eq_true, decide_eq_true_eq] at hc
    have hts' : ts = tk .itemType [65] :: (boundsToks mn mx ++ [tk .variable n, tk .rab [62]]) := by
      simpa [itemToks] using hts.symm
    have := itemBody_asciiVar (parseItemF.listLoop fuel 0 []) n mn mx hw hc.1 hc.2 s.pop rest
      (by rw [hpop, hts']; simp) (by simpa [PS.pop, FreshT] using hfresh)
    rw [this, hrec]
    cases s; simp_all [PS.pop, namesAfter]
  | binary zs =>
    have hwf := hw
    simp only [Tmpl.wf, Bool.and_eq_true, decide_eq_true_eq] at hwf
    obtain ⟨hv, _⟩ := slotsOk_mem _ zs hwf.2
    have hts' : ts = tk .itemType [66] :: sizeTok zs.length :: (slotToks (fun v => tk .number (printBin v)) zs ++ [tk .rab [62]]) := by
      have := hts; rw [itemToks, arrayToks] at this; simpa using this.symm
    have := itemBody_array (parseItemF.listLoop fuel 0 []) [66] (fun v => tk .number (printBin v)) (fun (v : Nat) => GoVal.sint 0 v)
      zs (.binary zs) s.pop rest (by rw [hpop, hts']; simp) (by decide) (by decide)
      (by unfold maxByteSize at hwf; omega) rfl (by simpa [PS.pop] using hskip)
      (fun a _ => rfl)
      (fun a ha => ⟨(fun h => by cases h), fun s' => arrayArg_binary a (by simpa using hv a ha) s'⟩)
      (by simpa [PS.pop, FreshT] using hfresh)
      (by simp only [dispatch]; exact rebuild_binary zs hw)
    rw [this, hrec]
    cases s; simp_all [PS.pop, namesAfter]
  | boolean zs =>
    have hwf := hw
    simp only [Tmpl.wf, Bool.and_eq_true, decide_eq_true_eq] at hwf
    have hts' : ts = tk .itemType [66, 79, 79, 76, 69, 65, 78] :: sizeTok zs.length :: (slotToks (fun b => tk .bool (printBool b)) zs ++ [tk .rab [62]]) := by
      have := hts; rw [itemToks, arrayToks] at this; simpa using this.symm
    have := itemBody_array (parseItemF.listLoop fuel 0 []) [66, 79, 79, 76, 69, 65, 78] (fun b => tk .bool (printBool b)) GoVal.bool
      zs (.boolean zs) s.pop rest (by rw [hpop, hts']; simp) (by decide) (by decide)
      (by unfold maxByteSize at hwf; omega) rfl (by simpa [PS.pop] using hskip)
      (fun a _ => rfl)
      (fun a _ => ⟨(fun h => by cases h), fun s' => arrayArg_bool a s'⟩)
      (by simpa [PS.pop, FreshT] using hfresh)
      (by simp only [dispatch]; exact rebuild_bool zs hw)
    rw [this, hrec]
    cases s; simp_all [PS.pop, namesAfter]
  | int w zs =>
    have hwf := hw
    simp only [Tmpl.wf, Bool.and_eq_true, decide_eq_true_eq] at hwf
    have hw4 : w = 1 ∨ w = 2 ∨ w = 4 ∨ w = 8 := by
      have := hwf.1.1
      simp only [validWidthInt, Bool.or_eq_true, beq_iff_eq] at this
      omega
    obtain ⟨hv, _⟩ := slotsOk_mem _ zs hwf.2
    have hd : decDigits w = [48 + w] := decDigits_small w (by omega)
    have hwt : widthOfType (73 :: decDigits w) = w := widthOfType_int w hw4 73
    have hts' : ts = tk .itemType (73 :: decDigits w) :: sizeTok zs.length :: (slotToks (fun v => tk .number (intDec v)) zs ++ [tk .rab [62]]) := by
      have := hts; rw [itemToks, arrayToks] at this; simpa using this.symm
    have := itemBody_array (parseItemF.listLoop fuel 0 []) (73 :: decDigits w) (fun v => tk .number (intDec v)) (GoVal.sint 64)
      zs (.int w zs) s.pop rest (by rw [hpop, hts']; simp) (by rw [hd]; simp) (by rw [hd]; simp)
      (by unfold maxByteSize at hwf; rcases hw4 with h | h | h | h <;> subst h <;> omega) rfl (by simpa [PS.pop] using hskip)
      (fun a _ => rfl)
      (fun a ha => ⟨(fun h => by cases h), fun s' => by rw [hwt]; exact arrayArg_int w hw4 a (hv a ha) s'⟩)
      (by simpa [PS.pop, FreshT] using hfresh)
      (by
        rw [hwt]
        have h1 : ((73 :: decDigits w) == [66]) = false := by rw [hd]; simp
        have h2 : ((73 :: decDigits w) == [66, 79, 79, 76, 69, 65, 78]) = false := by rw [hd]; simp
        simp only [dispatch, h1, h2, Bool.false_eq_true, if_false, List.head?_cons]
        simp only [show ((some 73 : Option Nat) == some 70) = false from by decide, Bool.false_eq_true, if_false,
          show ((some 73 : Option Nat) == some 73) = true from by decide, if_true]
        exact rebuild_int w zs hw)
    rw [this, hrec]
    cases s; simp_all [PS.pop, namesAfter]
  | uint w zs =>
    have hwf := hw
    simp only [Tmpl.wf, Bool.and_eq_true, decide_eq_true_eq] at hwf
    have hw4 : w = 1 ∨ w = 2 ∨ w = 4 ∨ w = 8 := by
      have := hwf.1.1
      simp only [validWidthInt, Bool.or_eq_true, beq_iff_eq] at this
      omega
    obtain ⟨hv, _⟩ := slotsOk_mem _ zs hwf.2
    have hd : decDigits w = [48 + w] := decDigits_small w (by omega)
    have hwt : widthOfType (85 :: decDigits w) = w := widthOfType_int w hw4 85
    have hts' : ts = tk .itemType (85 :: decDigits w) :: sizeTok zs.length :: (slotToks (fun v => tk .number (decDigits v)) zs ++ [tk .rab [62]]) := by
      have := hts; rw [itemToks, arrayToks] at this; simpa using this.symm
    have := itemBody_array (parseItemF.listLoop fuel 0 []) (85 :: decDigits w) (fun v => tk .number (decDigits v)) (GoVal.uint 64)
      zs (.uint w zs) s.pop rest (by rw [hpop, hts']; simp) (by rw [hd]; simp) (by rw [hd]; simp)
      (by unfold maxByteSize at hwf; rcases hw4 with h | h | h | h <;> subst h <;> omega) rfl (by simpa [PS.pop] using hskip)
      (fun a _ => rfl)
      (fun a ha => ⟨(fun h => by cases h), fun s' => by rw [hwt]; exact arrayArg_uint w hw4 a (hv a ha) s'⟩)
      (by simpa [PS.pop, FreshT] using hfresh)
      (by
        rw [hwt]
        have h1 : ((85 :: decDigits w) == [66]) = false := by rw [hd]; simp
        have h2 : ((85 :: decDigits w) == [66, 79, 79, 76, 69, 65, 78]) = false := by rw [hd]; simp
        simp only [dispatch, h1, h2, Bool.false_eq_true, if_false, List.head?_cons]
        simp only [show ((some 85 : Option Nat) == some 70) = false from by decide, Bool.false_eq_true, if_false,
          show ((some 85 : Option Nat) == some 73) = false from by decide]
        exact rebuild_uint w zs hw)
    rw [this, hrec]
    cases s; simp_all [PS.pop, namesAfter]


theorem listOwnOk_ellipsis_pos (n : Name) (r : Slots) (pos : Nat) (e : Bool) (hn : isEllipsis n = true)
    (h : listOwnOk (.var n r) pos e = true) : pos ≠ 0 ∧ listOwnOk r (pos + 1) true = true := by
  have hv : isValidVarName n = false := by
    cases hvv : isValidVarName n with
    | false => rfl
    | true =>
      -- a valid name starts with a letter or `_`, an ellipsis with `.`
      cases n with
      | nil => simp [isEllipsis] at hn
      | cons b rr =>
        simp only [isValidVarName, Bool.and_eq_true] at hvv
        unfold isEllipsis at hn
        split at hn
        · rename_i heq
          injection heq with h1 _
          subst h1
          have := hvv.1
          simp [isIdentStartB, isAlphaB, isUpperB, isLowerB] at this
        · cases hn
  simp only [listOwnOk, hv, Bool.false_eq_true, if_false, hn, if_true, Bool.and_eq_true, bne_iff_ne, ne_eq,
    Bool.not_eq_true'] at h
  exact ⟨h.1.1, h.2⟩

theorem listOwnOk_plain (n : Name) (r : Slots) (pos : Nat) (e : Bool) (hn : isEllipsis n = false)
    (h : listOwnOk (.var n r) pos e = true) : listOwnOk r (pos + 1) e = true := by
  simp only [listOwnOk, hn, Bool.false_eq_true, if_false] at h
  split at h
  · exact h
  · cases h

theorem listLoop_rab (fuel count : Nat) (acc : List GoVal) (s : PS) (hp : s.peek = tk .rab [62]) :
    parseItemF.listLoop (fuel + 1) count acc s = (ofFactory (mkList acc.reverse), s) := by
  rw [parseItemF.listLoop]
  simp only [hp, tk]

theorem listLoop_lab (fuel count : Nat) (acc : List GoVal) (s : PS) (hp : s.peek = tk .lab [60]) (t : Tmpl) (s1 : PS)
    (hitem : parseItemF fuel s = (.ok t, s1)) :
    parseItemF.listLoop (fuel + 1) count acc s = parseItemF.listLoop fuel (count + 1) (.item t :: acc) s1 := by
  rw [parseItemF.listLoop]
  simp only [hp, tk, hitem]

theorem listLoop_var (fuel count : Nat) (acc : List GoVal) (s : PS) (nm : Name) (hp : s.peek = tk .variable nm)
    (hc : s.pop.names.contains nm = false) :
    parseItemF.listLoop (fuel + 1) count acc s =
      parseItemF.listLoop fuel (count + 1) (.str nm :: acc) (s.pop.addName nm) := by
  rw [parseItemF.listLoop]
  simp only [hp, tk, hc, Bool.false_eq_true, if_false]

theorem listLoop_ell (fuel count : Nat) (acc : List GoVal) (s : PS) (hp : s.peek = tk .ellipsis [46, 46, 46])
    (hc : count ≠ 0) :
    parseItemF.listLoop (fuel + 1) count acc s =
      parseItemF.listLoop fuel (count + 1) (.str ([46, 46, 46, 91] ++ decDigits s.pop.ell ++ [93]) :: acc) s.pop.bumpEll := by
  rw [parseItemF.listLoop]
  have hc0 : (count == 0) = false := by simpa using hc
  have hnw : (([46, 46, 46] : Bytes) != [46, 46, 46]) = false := by decide
  simp only [hp, tk, hc0, Bool.false_eq_true, if_false, hnw, Bool.false_and]

/-- **Parser half of the print → parse round trip for items.** Parsing the printed tokens of a
well-formed, float-free tree whose names are new and whose ellipses are numbered in order gives
the tree back, consumes exactly its tokens, and leaves the names and the ellipsis counter as
the tree dictates. -/
theorem parse_toks : ∀ fuel : Nat,
    (∀ (t : Tmpl) (s : PS) (rest : List Tok) (e' : Nat), (itemToks t).length ≤ fuel → t.wf = true → cleanT t = true →
      s.toks = itemToks t ++ rest → s.skipSize = false → FreshT s.names t → ellAfter s.ell t = some e' →
      parseItemF fuel s = (.ok t, { s with toks := rest, names := namesAfter s.names t, ell := e' })) ∧
    (∀ (xs : Slots) (count : Nat) (acc : List GoVal) (eSeen : Bool) (s : PS) (rest : List Tok) (e' : Nat),
      (slotsToks xs).length + 1 ≤ fuel → xs.wfAll = true → cleanS xs = true → listOwnOk xs count eSeen = true →
      s.toks = slotsToks xs ++ tk .rab [62] :: rest → s.skipSize = false → FreshS s.names xs → ellAfterS s.ell xs = some e' →
      parseItemF.listLoop fuel count acc s =
        (ofFactory (mkList (acc.reverse ++ slotArgs xs)),
          { s with toks := tk .rab [62] :: rest, names := namesAfterS s.names xs, ell := e' })) := by
  intro fuel
  induction fuel with
  | zero =>
    constructor
    · intro t s rest e' hl _ hc
      obtain ⟨ts, hts⟩ := itemToks_cons t hc
      rw [hts] at hl; simp at hl
    · intro xs count acc eSeen s rest e' hl
      omega
  | succ n ih =>
    constructor
    · -- an item
      intro t s rest e' hl hw hc hs hskip hfresh hell
      by_cases hlist : t.isList = false
      · have := parseLeaf_toks n t hlist hw hc s rest hs hskip hfresh
        rw [this]
        have he : e' = s.ell := by
          cases t <;> simp_all [ellAfter, Tmpl.isList]
        subst he
        cases s; rfl
      · cases t with
        | list xs =>
          have hp : s.peek = tk .lab [60] := by simp [PS.peek, hs, itemToks]
          have hpop : s.pop.toks = tk .itemType [76] :: ((if xs.hasVar then [] else [sizeTok xs.len]) ++ slotsToks xs ++ tk .rab [62] :: rest) := by
            simp [PS.pop, hs, itemToks]
          have hwf := hw
          simp only [Tmpl.wf, Bool.and_eq_true, decide_eq_true_eq] at hwf
          have hlen : (slotsToks xs).length + 1 ≤ n := by
            simp only [itemToks, List.length_append, List.length_cons, List.length_nil] at hl
            split at hl <;> simp at hl <;> omega
          have hloop := ih.2 xs 0 [] false { s.pop with toks := slotsToks xs ++ tk .rab [62] :: rest } rest e' hlen
            hwf.1.1.2 (by simpa [cleanT] using hc) hwf.1.2 rfl (by simpa [PS.pop] using hskip)
            (by simpa [PS.pop, FreshT] using hfresh) (by simpa [PS.pop, ellAfter] using hell)
          simp only [List.reverse_nil, List.nil_append] at hloop
          unfold parseItemF
          simp only [hp]
          have hk : ((tk Kind.lab [60]).kind != Kind.lab) = false := rfl
          simp only [hk, Bool.false_eq_true, if_false]
          have hbody := itemBody_list (parseItemF.listLoop n 0 []) xs hw (by simpa [cleanT] using hc) s.pop rest
            { s.pop with toks := tk .rab [62] :: rest, names := namesAfterS s.names xs, ell := e' } hpop
            (by rw [hloop]; cases s; rfl) (by simpa [PS.pop] using hskip)
          rw [hbody]
          cases s; rfl
        | _ => simp [Tmpl.isList] at hlist
    · -- the elements of a list up to `>`
      intro xs count acc eSeen s rest e' hl hwa hca hown hs hskip hfresh hell
      cases xs with
      | nil =>
        have hp : s.peek = tk .rab [62] := by simp [PS.peek, hs, slotsToks]
        rw [listLoop_rab n count acc s hp]
        have he : e' = s.ell := by simpa [ellAfterS] using hell.symm
        subst he
        simp only [slotArgs, List.append_nil, namesAfterS]
        cases s
        simp only [slotsToks, List.nil_append] at hs
        subst hs
        rfl
      | item t r =>
        simp only [Slots.wfAll, Bool.and_eq_true] at hwa
        simp only [cleanS, Bool.and_eq_true] at hca
        obtain ⟨ts, hts⟩ := itemToks_cons t hca.1
        have hp : s.peek = tk .lab [60] := by simp [PS.peek, hs, slotsToks, hts]
        have hs' : s.toks = itemToks t ++ (slotsToks r ++ tk .rab [62] :: rest) := by simp [hs, slotsToks]
        simp only [FreshS] at hfresh
        simp only [ellAfterS] at hell
        cases hk1 : ellAfter s.ell t with
        | none => simp [hk1] at hell
        | some k1 =>
          simp only [hk1, Option.bind_some] at hell
          have hlt : (itemToks t).length ≤ n := by
            simp only [slotsToks, List.length_append] at hl; omega
          have hitem := ih.1 t s (slotsToks r ++ tk .rab [62] :: rest) k1 hlt hwa.1 hca.1 hs' hskip hfresh.1 hk1
          have hlr : (slotsToks r).length + 1 ≤ n := by
            simp only [slotsToks, List.length_append, hts, List.length_cons] at hl; omega
          have hrest := ih.2 r (count + 1) (GoVal.item t :: acc) eSeen
            { s with toks := slotsToks r ++ tk .rab [62] :: rest, names := namesAfter s.names t, ell := k1 } rest e' hlr
            hwa.2 hca.2 (by simpa [listOwnOk] using hown) rfl hskip hfresh.2 hell
          rw [listLoop_lab n count acc s hp t _ hitem, hrest]
          simp [slotArgs, namesAfterS]
      | var nm r =>
        simp only [Slots.wfAll] at hwa
        simp only [cleanS] at hca
        by_cases hn : isEllipsis nm = true
        · -- an ellipsis: `...`
          have hp : s.peek = tk .ellipsis [46, 46, 46] := by simp [PS.peek, hs, slotsToks, hn]
          have hpop : s.pop.toks = slotsToks r ++ tk .rab [62] :: rest := by simp [PS.pop, hs, slotsToks, hn]
          obtain ⟨hcount, hown'⟩ := listOwnOk_ellipsis_pos nm r count eSeen hn hown
          simp only [FreshS, hn, if_true] at hfresh
          simp only [ellAfterS, hn, if_true] at hell
          by_cases hname : (nm == [46, 46, 46, 91] ++ decDigits s.ell ++ [93]) = true
          · rw [if_pos hname] at hell
            have hname' : nm = [46, 46, 46, 91] ++ decDigits s.ell ++ [93] := by simpa using hname
            have hlr : (slotsToks r).length + 1 ≤ n := by
              simp only [slotsToks, List.length_cons] at hl; omega
            have hrest := ih.2 r (count + 1) (GoVal.str nm :: acc) true
              s.pop.bumpEll rest e' hlr hwa hca hown' (by simpa [PS.bumpEll] using hpop)
              (by simpa [PS.pop, PS.bumpEll] using hskip)
              (by simpa [PS.pop, PS.bumpEll] using hfresh) (by simpa [PS.pop, PS.bumpEll] using hell)
            have hv : ([46, 46, 46, 91] ++ decDigits s.pop.ell ++ [93] : Bytes) = nm := by rw [hname']; rfl
            rw [listLoop_ell n count acc s hp hcount, hv, hrest]
            cases s
            simp [slotArgs, namesAfterS, hn, PS.pop, PS.bumpEll]
          · rw [if_neg hname] at hell; cases hell
        · -- an item variable
          have hn' : isEllipsis nm = false := by simpa using hn
          have hp : s.peek = tk .variable nm := by simp [PS.peek, hs, slotsToks, hn']
          have hpop : s.pop.toks = slotsToks r ++ tk .rab [62] :: rest := by simp [PS.pop, hs, slotsToks, hn']
          simp only [FreshS, hn', Bool.false_eq_true, if_false] at hfresh
          simp only [ellAfterS, hn', Bool.false_eq_true, if_false] at hell
          have hlr : (slotsToks r).length + 1 ≤ n := by
            simp only [slotsToks, List.length_cons] at hl; omega
          have hrest := ih.2 r (count + 1) (GoVal.str nm :: acc) eSeen
            (s.pop.addName nm) rest e' hlr hwa hca (listOwnOk_plain nm r count eSeen hn' hown)
            (by simpa [PS.addName] using hpop) (by simpa [PS.pop, PS.addName] using hskip)
            (by simpa [PS.pop, PS.addName] using hfresh.2) (by simpa [PS.pop, PS.addName] using hell)
          have hc : s.pop.names.contains nm = false := by simpa [PS.pop] using hfresh.1
          rw [listLoop_var n count acc s nm hp hc, hrest]
          cases s
          simp [slotArgs, namesAfterS, hn', PS.pop, PS.addName]


/-! ### messages -/

def sfTok (st fn : Nat) : Tok := tk .streamFunction (83 :: (decDigits st ++ 70 :: decDigits fn))

theorem indexOf_F (ds tail : Bytes) (h : ∀ c ∈ ds, 48 ≤ c ∧ c ≤ 57) :
    Lex.indexOf (· == 70) (ds ++ 70 :: tail) = some ds.length := by
  induction ds with
  | nil => simp [Lex.indexOf]
  | cons c r ih =>
    have hc := h c (by simp)
    have : (c == 70) = false := by simp; omega
    simp [Lex.indexOf, this, ih (fun x hx => h x (by simp [hx]))]

theorem streamFunction_sf (s : PS) (st fn : Nat) (hst : st < 128) (hfn : fn < 256) :
    streamFunction s (sfTok st fn) = ((st : Int), (fn : Int), s) := by
  have hi : indexByte 70 (sfTok st fn).val = some (1 + (decDigits st).length) := by
    have := indexOf_F (decDigits st) (decDigits fn) (decDigits_spec st).1
    simp only [indexByte, sfTok, tk, Lex.indexOf]
    have h83 : ((83 : Nat) == 70) = false := by decide
    simp only [h83, Bool.false_eq_true, if_false, this, Option.map_some]
    congr 1; omega
  unfold streamFunction
  simp only [hi, Option.getD_some]
  have h1 : List.drop 1 (List.take (1 + (decDigits st).length) (sfTok st fn).val) = decDigits st := by
    simp only [sfTok, tk]
    rw [Nat.add_comm, List.take_succ_cons, List.take_left]
    rfl
  have h2 : List.drop (1 + (decDigits st).length + 1) (sfTok st fn).val = decDigits fn := by
    simp only [sfTok, tk]
    have e : 1 + (decDigits st).length + 1 = ((decDigits st).length + 1) + 1 := by omega
    rw [e, List.drop_succ_cons]
    have e2 : decDigits st ++ 70 :: decDigits fn = (decDigits st ++ [70]) ++ decDigits fn := by simp
    have e3 : (decDigits st).length + 1 = (decDigits st ++ [70]).length := by simp
    rw [e2, e3, List.drop_left]
  simp only [h1, h2, atoi_decDigits st (by omega), atoi_decDigits fn (by omega)]
  have c1 : (decide ((0 : Int) ≤ (st : Int)) && decide ((st : Int) < 128)) = true := by
    simp; omega
  have c2 : (decide ((0 : Int) ≤ (fn : Int)) && decide ((fn : Int) < 256)) = true := by
    simp; omega
  simp only [c1, c2, if_true]


/-- the tokens of a printed message -/
def msgToks (m : Msg) : List Tok :=
  sfTok m.stream.toNat m.function.toNat ::
    ((if m.waitBit == 1 then [tk .waitBit [87]] else if m.waitBit == 2 then [tk .waitBit [91, 87, 93]] else []) ++
     tk .direction m.direction :: ((if m.name.isEmpty then [] else [tk .msgName m.name]) ++
      (itemToks m.item ++ [tk .msgEnd [46]])))

/-- what a printed message can say about a message: everything but the session -/
def unaddressed (m : Msg) : Msg := { m with sessionID := -1, sysBytes := [0, 0, 0, 0] }

/-- NewDataMessage on the fields of a valid message gives that message, unaddressed -/
theorem mkMsg_valid (m : Msg) (h : m.valid = true) :
    mkMsg m.name m.stream m.function m.waitBit m.direction m.item = some (unaddressed m) := by
  unfold mkMsg checked
  have hv : Msg.valid ⟨m.name, m.stream, m.function, m.waitBit, m.direction, m.item, -1, [0, 0, 0, 0]⟩ = true := by
    simp only [Msg.valid, Bool.and_eq_true, decide_eq_true_eq] at h ⊢
    exact ⟨⟨⟨h.1.1.1, by decide⟩, by decide⟩, h.2⟩
  rw [if_pos hv]
  rfl


theorem state_pop (s : PS) (t : Tok) (r : List Tok) (h : s.toks = t :: r) : s.pop = { s with toks := r } := by
  cases s; simp only [PS.pop] at *; simp_all

theorem peek_cons (s : PS) (t : Tok) (r : List Tok) (h : s.toks = t :: r) : s.peek = t := by
  simp [PS.peek, h]

/-- the optional wait bit, as printed -/
theorem waitBitOf_printed (fn wb : Int) (hwb : wb = 0 ∨ wb = 1 ∨ wb = 2) (hodd : wb = 1 → fn % 2 ≠ 0)
    (s : PS) (d : Tok) (r : List Tok) (hd : d.kind = .direction)
    (hs : s.toks = (if wb == 1 then [tk .waitBit [87]] else if wb == 2 then [tk .waitBit [91, 87, 93]] else []) ++ d :: r) :
    waitBitOf fn s = (wb, { s with toks := d :: r }) := by
  rcases hwb with h | h | h <;> subst h
  · have hs' : s.toks = d :: r := by simpa using hs
    unfold waitBitOf
    simp only [peek_cons s d r hs', hd]
    have : (Kind.direction == Kind.waitBit) = false := rfl
    simp only [this, Bool.false_eq_true, if_false]
    cases s; simp_all
  · have hs' : s.toks = tk .waitBit [87] :: d :: r := by simpa using hs
    unfold waitBitOf
    simp only [peek_cons s _ _ hs', state_pop s _ _ hs', tk]
    have h1 : (Kind.waitBit == Kind.waitBit) = true := rfl
    have h2 : (([87] : Bytes) == [87]) = true := by decide
    have h3 : (fn % 2 == 0) = false := by simpa using hodd rfl
    simp only [h1, h2, h3, if_true, Bool.false_eq_true, if_false]
  · have hs' : s.toks = tk .waitBit [91, 87, 93] :: d :: r := by simpa using hs
    unfold waitBitOf
    simp only [peek_cons s _ _ hs', state_pop s _ _ hs', tk]
    have h1 : (Kind.waitBit == Kind.waitBit) = true := rfl
    have h2 : (([91, 87, 93] : Bytes) == [87]) = false := by decide
    simp only [h1, h2, if_true, Bool.false_eq_true, if_false]

theorem directionOf_printed (dir : Bytes) (s : PS) (r : List Tok) (hs : s.toks = tk .direction dir :: r) :
    directionOf s = (dir, { s with toks := r }) := by
  unfold directionOf
  simp only [peek_cons s _ _ hs, state_pop s _ _ hs, tk]
  have : (Kind.direction == Kind.direction) = true := rfl
  simp only [this, if_true]

theorem nameOf_printed (name : Bytes) (s : PS) (nx : Tok) (r : List Tok) (hnx : nx.kind ≠ .msgName)
    (hs : s.toks = (if name.isEmpty then [] else [tk .msgName name]) ++ nx :: r) :
    nameOf s = (name, { s with toks := nx :: r }) := by
  by_cases he : name.isEmpty = true
  · have hn : name = [] := by simpa using he
    have hs' : s.toks = nx :: r := by simpa [he] using hs
    unfold nameOf
    simp only [peek_cons s _ _ hs']
    have : (nx.kind == Kind.msgName) = false := by
      cases hk : nx.kind <;> first | rfl | exact absurd hk hnx
    simp only [this, Bool.false_eq_true, if_false, hn]
    cases s; simp_all
  · have hs' : s.toks = tk .msgName name :: nx :: r := by simpa [he] using hs
    unfold nameOf
    simp only [peek_cons s _ _ hs', state_pop s _ _ hs', tk]
    have : (Kind.msgName == Kind.msgName) = true := rfl
    simp only [this, if_true]


/-- the item of a message the printed form can express: nothing, or a clean well-formed tree with
distinct names and its ellipses numbered in order -/
def ItemOK (it : Tmpl) (e' : Nat) : Prop :=
  (it = .empty ∧ e' = 0) ∨ (it.wf = true ∧ cleanT it = true ∧ FreshT [] it ∧ ellAfter 0 it = some e')

theorem msgItem_printed (it : Tmpl) (e' : Nat) (hok : ItemOK it e') (s : PS) (r : List Tok)
    (hs : s.toks = itemToks it ++ tk .msgEnd [46] :: r) (hn : s.names = []) (he : s.ell = 0) (hskip : s.skipSize = false) :
    msgItem s = (.ok it, { s with toks := tk .msgEnd [46] :: r, names := namesAfter [] it, ell := e' }) := by
  rcases hok with ⟨hit, hz⟩ | ⟨hw, hc, hf, hel⟩
  · subst hit; subst hz
    have hs' : s.toks = tk .msgEnd [46] :: r := by simpa [itemToks] using hs
    unfold msgItem
    simp only [peek_cons s _ _ hs', tk]
    have : (Kind.msgEnd == Kind.msgEnd) = true := rfl
    simp only [this, if_true, namesAfter]
    cases s; simp_all [tk]
  · obtain ⟨ts, hts⟩ := itemToks_cons it hc
    have hp : s.peek = tk .lab [60] := by simp [PS.peek, hs, hts]
    unfold msgItem
    simp only [hp]
    have hkk : (tk Kind.lab [60]).kind = Kind.lab := rfl
    simp only [hkk]
    have h1 : (Kind.lab == Kind.msgEnd) = false := rfl
    have h2 : (Kind.lab == Kind.lab) = true := rfl
    simp only [h1, h2, Bool.false_eq_true, if_false, if_true]
    have := (parse_toks (s.toks.length + 1)).1 it s (tk .msgEnd [46] :: r) e'
      (by rw [hs]; simp; omega) hw hc hs hskip (by rw [hn]; exact hf) (by rw [he]; exact hel)
    rw [this, hn]

/-- **Parser half of the round trip for a message**: parseMessage on the printed tokens of a
valid message gives the message back (unaddressed: the printed form does not carry the session) -/
theorem parseMessage_printed (m : Msg) (hv : m.valid = true) (e' : Nat) (hok : ItemOK m.item e')
    (s : PS) (r : List Tok) (hs : s.toks = msgToks m ++ r) (hskip : s.skipSize = false) :
    parseMessage s = (some (some (unaddressed m)), { s with toks := r, names := namesAfter [] m.item, ell := e' }) := by
  have hvv := hv
  simp only [Msg.valid, Bool.and_eq_true, decide_eq_true_eq, Bool.not_eq_true', Bool.and_eq_false_iff,
    Bool.or_eq_true, beq_iff_eq] at hvv
  obtain ⟨⟨⟨⟨⟨⟨⟨_, hst⟩, hfn⟩, hwf⟩, hwb⟩, _⟩, _⟩, _⟩ := hvv
  have hst' : ((m.stream.toNat : Nat) : Int) = m.stream := by omega
  have hfn' : ((m.function.toNat : Nat) : Int) = m.function := by omega
  unfold parseMessage
  have hs0 : s.resetScope.toks = msgToks m ++ r := hs
  have hp : s.resetScope.peek = sfTok m.stream.toNat m.function.toNat := by
    simp [PS.peek, hs0, msgToks]
  simp only [hp]
  have hk : ((sfTok m.stream.toNat m.function.toNat).kind != Kind.streamFunction) = false := rfl
  simp only [hk, Bool.false_eq_true, if_false]
  rw [streamFunction_sf _ _ _ (by omega) (by omega), hst', hfn']
  simp only
  -- the state after the stream/function token
  have hpop : s.resetScope.pop.toks =
      (if m.waitBit == 1 then [tk .waitBit [87]] else if m.waitBit == 2 then [tk .waitBit [91, 87, 93]] else []) ++
        tk .direction m.direction :: ((if m.name.isEmpty then [] else [tk .msgName m.name]) ++
          (itemToks m.item ++ tk .msgEnd [46] :: r)) := by
    simp [PS.pop, hs0, msgToks]
  have hwb3 : m.waitBit = 0 ∨ m.waitBit = 1 ∨ m.waitBit = 2 := by omega
  have hodd : m.waitBit = 1 → m.function % 2 ≠ 0 := by
    intro h1
    rcases hwf with h | h
    · exact absurd h1 (by simpa using h)
    · simpa using h
  rw [waitBitOf_printed m.function m.waitBit hwb3 hodd s.resetScope.pop (tk .direction m.direction) _ rfl hpop]
  simp only
  rw [directionOf_printed m.direction _ _ rfl]
  simp only
  have hnx : ∀ (ts : List Tok), ∃ nx r', itemToks m.item ++ tk .msgEnd [46] :: r = nx :: r' ∧ nx.kind ≠ .msgName := by
    intro _
    rcases hok with ⟨hit, _⟩ | ⟨_, hc, _, _⟩
    · exact ⟨tk .msgEnd [46], r, by simp [hit, itemToks], by decide⟩
    · obtain ⟨ts, hts⟩ := itemToks_cons m.item hc
      exact ⟨tk .lab [60], ts ++ tk .msgEnd [46] :: r, by simp [hts], by decide⟩
  obtain ⟨nx, r', hnxr, hnk⟩ := hnx []
  rw [nameOf_printed m.name _ nx r' hnk (by simp [hnxr])]
  simp only
  rw [msgItem_printed m.item e' hok _ r (by simp [hnxr]) rfl rfl (by simpa [PS.pop, PS.resetScope] using hskip)]
  simp only
  unfold finishMsg
  simp only [PS.peek, tk]
  have hme : (Kind.msgEnd != Kind.msgEnd) = false := rfl
  simp only [hme, Bool.false_eq_true, if_false, mkMsg_valid m hv]
  cases s
  simp [PS.pop, PS.resetScope]


def eofTok : Tok := tk .eof [69, 79, 70]

theorem msgToks_cons (m : Msg) : ∃ ts, msgToks m = sfTok m.stream.toNat m.function.toNat :: ts := ⟨_, rfl⟩

/-- the message loop over the printed tokens of any number of messages -/
theorem parseLoop_printed : ∀ (ms : List Msg) (fuel : Nat) (s : PS) (acc : List Msg),
    (∀ m ∈ ms, m.valid = true ∧ ∃ e', ItemOK m.item e') → ms.length < fuel →
    s.toks = ms.flatMap msgToks ++ [eofTok] → s.skipSize = false →
    ∃ s', parseLoop fuel s acc = some (acc.reverse ++ ms.map unaddressed, s') ∧ s'.errs = s.errs ∧ s'.warns = s.warns := by
  intro ms
  induction ms with
  | nil =>
    intro fuel s acc _ hf hs _
    cases fuel with
    | zero => omega
    | succ n =>
      have hp : s.peek = eofTok := by simp [PS.peek, hs]
      refine ⟨s, ?_, rfl, rfl⟩
      rw [parseLoop]
      have hk : (s.peek.kind == Kind.eof) = true := by rw [hp]; rfl
      simp only [hk, if_true, List.map_nil, List.append_nil]
  | cons m r ih =>
    intro fuel s acc hall hf hs hskip
    cases fuel with
    | zero => omega
    | succ n =>
      obtain ⟨hv, e', hok⟩ := hall m (by simp)
      have hs' : s.toks = msgToks m ++ (r.flatMap msgToks ++ [eofTok]) := by simp [hs]
      obtain ⟨ts, hts⟩ := msgToks_cons m
      have hp : s.peek = sfTok m.stream.toNat m.function.toNat := by simp [PS.peek, hs', hts]
      have hm := parseMessage_printed m hv e' hok s _ hs' hskip
      obtain ⟨s', h1, h2, h3⟩ := ih n
        { s with toks := r.flatMap msgToks ++ [eofTok], names := namesAfter [] m.item, ell := e' } (unaddressed m :: acc)
        (fun x hx => hall x (by simp [hx])) (by simpa using hf) rfl hskip
      refine ⟨s', ?_, h2, h3⟩
      rw [parseLoop]
      have hk : (s.peek.kind == Kind.eof) = false := by rw [hp]; rfl
      simp only [hk, Bool.false_eq_true, if_false, hm, h1]
      simp

/-- **Parser half of the print → parse round trip.** The token stream of the printed form of any
number of valid messages (items clean, names distinct, ellipses numbered in order) parses to
exactly these messages — unaddressed, since the printed form does not carry the session —
with no error and no warning. -/
theorem parseToks_printed (ms : List Msg) (hall : ∀ m ∈ ms, m.valid = true ∧ ∃ e', ItemOK m.item e') :
    parseToks (ms.flatMap msgToks ++ [eofTok]) = .done (ms.map unaddressed) [] [] := by
  unfold parseToks
  have hlen : ms.length < (ms.flatMap msgToks ++ [eofTok]).length + 1 := by
    have : ms.length ≤ (ms.flatMap msgToks).length := by
      clear hall
      induction ms with
      | nil => simp
      | cons m r ih =>
        obtain ⟨ts, hts⟩ := msgToks_cons m
        simp only [List.flatMap_cons, List.length_append, List.length_cons, hts]
        omega
    rw [List.length_append]
    simp only [List.length_singleton]
    omega
  obtain ⟨s', h1, h2, h3⟩ := parseLoop_printed ms _ { toks := ms.flatMap msgToks ++ [eofTok] } [] hall hlen rfl rfl
  rw [h1]
  simp only [List.reverse_nil, List.nil_append]
  have he : s'.errs = [] := h2
  have hw : s'.warns = [] := h3
  simp [he, hw]


/-! ### the freshness condition follows from well-formedness -/

theorem nodup_append (a b : List Name) (h : nodupNames (a ++ b) = true) :
    nodupNames a = true ∧ nodupNames b = true ∧ ∀ v ∈ a, v ∉ b := by
  induction a with
  | nil => exact ⟨rfl, by simpa using h, by simp⟩
  | cons x r ih =>
    simp only [List.cons_append, nodupNames, Bool.and_eq_true, Bool.not_eq_true'] at h
    obtain ⟨h1, h2, h3⟩ := ih h.2
    have hx : x ∉ r ∧ x ∉ b := by
      have : (r ++ b).contains x = false := h.1
      simp only [List.contains_eq_mem, List.mem_append, decide_eq_false_iff_not, not_or] at this
      exact this
    refine ⟨by simp [nodupNames, h1, hx.1], h2, ?_⟩
    intro v hv
    rcases List.mem_cons.mp hv with rfl | hv
    · exact hx.2
    · exact h3 v hv

theorem contains_false_iff (l : List Name) (v : Name) : l.contains v = false ↔ v ∉ l := by simp

mutual
theorem fresh_of_nodup : ∀ (t : Tmpl) (names : List Name), cleanT t = true → nodupNames t.vars = true →
    (∀ v ∈ t.vars, v ∉ names) →
    FreshT names t ∧ (∀ v, v ∈ namesAfter names t → v ∈ names ∨ v ∈ t.vars)
  | .list xs, names, hc, hn, hd => by
    simpa [FreshT, namesAfter, Tmpl.vars] using freshS_of_nodup xs names (by simpa [cleanT] using hc) (by simpa [Tmpl.vars] using hn) (by simpa [Tmpl.vars] using hd)
  | .ascii _, names, _, _, _ => ⟨trivial, fun v hv => Or.inl hv⟩
  | .asciiVar n _ _, names, _, _, hd => by
    refine ⟨?_, ?_⟩
    · simp only [FreshT, contains_false_iff]; exact hd n (by simp [Tmpl.vars])
    · intro v hv
      simp only [namesAfter, List.mem_cons] at hv
      rcases hv with rfl | hv
      · right; simp [Tmpl.vars]
      · left; exact hv
  | .binary xs, names, _, hn, hd => ⟨⟨hn, fun v hv => (contains_false_iff _ _).mpr (hd v hv)⟩, fun v hv => by
      simp only [namesAfter, List.mem_append, List.mem_reverse] at hv
      rcases hv with hv | hv
      · right; exact hv
      · left; exact hv⟩
  | .boolean xs, names, _, hn, hd => ⟨⟨hn, fun v hv => (contains_false_iff _ _).mpr (hd v hv)⟩, fun v hv => by
      simp only [namesAfter, List.mem_append, List.mem_reverse] at hv
      rcases hv with hv | hv
      · right; exact hv
      · left; exact hv⟩
  | .int _ xs, names, _, hn, hd => ⟨⟨hn, fun v hv => (contains_false_iff _ _).mpr (hd v hv)⟩, fun v hv => by
      simp only [namesAfter, List.mem_append, List.mem_reverse] at hv
      rcases hv with hv | hv
      · right; exact hv
      · left; exact hv⟩
  | .uint _ xs, names, _, hn, hd => ⟨⟨hn, fun v hv => (contains_false_iff _ _).mpr (hd v hv)⟩, fun v hv => by
      simp only [namesAfter, List.mem_append, List.mem_reverse] at hv
      rcases hv with hv | hv
      · right; exact hv
      · left; exact hv⟩
  | .float _ xs, names, hc, _, _ => by simp [cleanT] at hc
  | .empty, names, hc, _, _ => by simp [cleanT] at hc
theorem freshS_of_nodup : ∀ (xs : Slots) (names : List Name), cleanS xs = true → nodupNames xs.vars = true →
    (∀ v ∈ xs.vars, v ∉ names) →
    FreshS names xs ∧ (∀ v, v ∈ namesAfterS names xs → v ∈ names ∨ v ∈ xs.vars)
  | .nil, names, _, _, _ => ⟨trivial, fun v hv => Or.inl hv⟩
  | .item t r, names, hc, hn, hd => by
    simp only [cleanS, Bool.and_eq_true] at hc
    have hvars : (Slots.item t r).vars = t.vars ++ r.vars := by
      cases t <;> first | rfl | (simp [cleanT] at hc)
    rw [hvars] at hn hd
    obtain ⟨hn1, hn2, hdis⟩ := nodup_append _ _ hn
    obtain ⟨ft, mt⟩ := fresh_of_nodup t names hc.1 hn1 (fun v hv => hd v (by simp [hv]))
    have hd2 : ∀ v ∈ r.vars, v ∉ namesAfter names t := by
      intro v hv hmem
      rcases mt v hmem with h | h
      · exact hd v (by simp [hv]) h
      · exact hdis v h hv
    obtain ⟨fr, mr⟩ := freshS_of_nodup r (namesAfter names t) hc.2 hn2 hd2
    refine ⟨⟨ft, fr⟩, ?_⟩
    intro v hv
    simp only [namesAfterS] at hv
    rw [hvars]
    rcases mr v hv with h | h
    · rcases mt v h with h' | h'
      · left; exact h'
      · right; simp [h']
    · right; simp [h]
  | .var n r, names, hc, hn, hd => by
    simp only [cleanS] at hc
    simp only [Slots.vars, nodupNames, Bool.and_eq_true, Bool.not_eq_true'] at hn
    have hnr : n ∉ r.vars := (contains_false_iff _ _).mp hn.1
    by_cases he : isEllipsis n = true
    · obtain ⟨fr, mr⟩ := freshS_of_nodup r names hc hn.2 (fun v hv => hd v (by simp [Slots.vars, hv]))
      refine ⟨by simpa [FreshS, he] using fr, ?_⟩
      intro v hv
      simp only [namesAfterS, he, if_true] at hv
      rcases mr v hv with h | h
      · left; exact h
      · right; simp [Slots.vars, h]
    · have he' : isEllipsis n = false := by simpa using he
      have hd2 : ∀ v ∈ r.vars, v ∉ n :: names := by
        intro v hv hmem
        rcases List.mem_cons.mp hmem with rfl | h
        · exact hnr hv
        · exact hd v (by simp [Slots.vars, hv]) h
      obtain ⟨fr, mr⟩ := freshS_of_nodup r (n :: names) hc hn.2 hd2
      refine ⟨?_, ?_⟩
      · simp only [FreshS, he', Bool.false_eq_true, if_false, contains_false_iff]
        exact ⟨hd n (by simp [Slots.vars]), fr⟩
      · intro v hv
        simp only [namesAfterS, he', Bool.false_eq_true, if_false] at hv
        rcases mr v hv with h | h
        · rcases List.mem_cons.mp h with rfl | h'
          · right; simp [Slots.vars]
          · left; exact h'
        · right; simp [Slots.vars, h]
end

/-- for a well-formed tree every name is new to an empty table -/
theorem freshT_nil (t : Tmpl) (hw : t.wf = true) (hc : cleanT t = true) : FreshT [] t := by
  have hn : nodupNames t.vars = true := by
    cases t with
    | list xs => simp only [Tmpl.wf, Bool.and_eq_true] at hw; exact hw.2
    | ascii s => rfl
    | asciiVar n a b => rfl
    | empty => rfl
    | binary xs => simp only [Tmpl.wf, slotsOk, Bool.and_eq_true] at hw; exact hw.2.2
    | boolean xs => simp only [Tmpl.wf, slotsOk, Bool.and_eq_true] at hw; exact hw.2.2
    | int w xs => simp only [Tmpl.wf, slotsOk, Bool.and_eq_true] at hw; exact hw.2.2
    | uint w xs => simp only [Tmpl.wf, slotsOk, Bool.and_eq_true] at hw; exact hw.2.2
    | float w xs => simp only [Tmpl.wf, slotsOk, Bool.and_eq_true] at hw; exact hw.2.2
  exact (fresh_of_nodup t [] hc hn (by simp)).1

end Sml
end Secs
