/-
A sub-parser that gives up has reported why: every `stop` outcome leaves an error in the state,
and a message that is not built (`parseMessage … = none`) leaves one too. So "no error" means the
message loop ran until it saw the end of the token stream.
-/
import SecsModel.Proofs.ParserFuel
namespace Secs
namespace Sml
open Lex

@[simp] theorem err_errs_ne (s : PS) (t : Tok) (k : String) : (s.err t k).errs ≠ [] := by simp [PS.err]
@[simp] theorem warn_errs (s : PS) (t : Tok) (k : String) : (s.warn t k).errs = s.errs := rfl

theorem arrayArgs_none_err (ty : Bytes) (w : Nat) : ∀ (ts : List Tok) (s : PS),
    (arrayArgs ty w ts s).1 = none → (arrayArgs ty w ts s).2.errs ≠ []
  | [], s, h => by simp [arrayArgs] at h
  | t :: r, s, h => by
    unfold arrayArgs at h ⊢
    split
    · simp
    · rename_i hk
      simp only [hk, Bool.false_eq_true, if_false] at h
      cases ha : arrayArg ty w s t with
      | none => simp
      | some p =>
        simp only [ha] at h ⊢
        have ih := arrayArgs_none_err ty w r p.2
        cases hr : arrayArgs ty w r p.2 with
        | mk o s2 =>
          rw [hr] at h ih
          cases o with
          | some gs => simp at h
          | none => simpa using ih rfl

theorem asciiLoop_stop_err (mn mx : Int) (n : Nat) : ∀ (ts : List Tok) (lit : Bytes) (s : PS),
    (asciiLoop mn mx n ts lit s).1 = .stop → (asciiLoop mn mx n ts lit s).2.errs ≠ []
  | [], lit, s, h => by
    simp only [asciiLoop, ofFactory] at h
    split at h <;> cases h
  | t :: r, lit, s, h => by
    generalize hres : asciiLoop mn mx n (t :: r) lit s = res at h ⊢
    unfold asciiLoop at hres
    dsimp only at hres
    repeat' split at hres
    all_goals subst hres
    all_goals first
      | (simp; done)
      | exact asciiLoop_stop_err mn mx n r _ _ h
      | (simp at h; done)
      | (simp only [ofFactory] at h; split at h <;> cases h)

theorem asciiItem_stop_err (lo hi : Int) (s : PS) (h : (asciiItem lo hi s).1 = .stop) : (asciiItem lo hi s).2.errs ≠ [] := by
  unfold asciiItem at h ⊢
  exact asciiLoop_stop_err _ _ _ _ _ _ h

theorem arrayItem_stop_err (ty : Bytes) (s : PS) (h : (arrayItem ty s).1 = .stop) : (arrayItem ty s).2.errs ≠ [] := by
  generalize hres : arrayItem ty s = res at h ⊢
  unfold arrayItem at hres
  dsimp only at hres
  have ha := arrayArgs_none_err ty (widthOfType ty) (valueTokens (s.toks.length + 1) s).1 (valueTokens (s.toks.length + 1) s).2
  cases hx : arrayArgs ty (widthOfType ty) (valueTokens (s.toks.length + 1) s).1 (valueTokens (s.toks.length + 1) s).2 with
  | mk o s2 =>
    rw [hx] at hres ha
    cases o with
    | none => subst hres; exact ha rfl
    | some gs =>
      subst hres
      simp only [ofFactory] at h
      split at h <;> cases h

theorem closeTail_stop_err (item : Tmpl) (s : PS) (h : (closeTail item s).1 = .stop) : (closeTail item s).2.errs ≠ [] := by
  generalize hres : closeTail item s = res at h ⊢
  unfold closeTail at hres
  dsimp only at hres
  split at hres
  · subst hres; simp
  · subst hres; cases h

theorem closeItem_stop_err (sizeTok : Tok) (lo hi : Int) (res : R Tmpl) (s : PS) (hs : res = .stop → s.errs ≠ [])
    (h : (closeItem sizeTok lo hi res s).1 = .stop) : (closeItem sizeTok lo hi res s).2.errs ≠ [] := by
  generalize hres : closeItem sizeTok lo hi res s = out at h ⊢
  unfold closeItem at hres
  cases res with
  | stop => subst hres; exact hs rfl
  | panic => subst hres; cases h
  | ok item =>
    dsimp only at hres
    split at hres
    · subst hres; exact closeTail_stop_err _ _ h
    · subst hres; exact closeTail_stop_err _ _ h

theorem closeItem_not_panic (sizeTok : Tok) (lo hi : Int) (res : R Tmpl) (s : PS) (hs : res ≠ .panic) :
    (closeItem sizeTok lo hi res s).1 ≠ .panic := by
  unfold closeItem
  cases res with
  | stop => simp
  | panic => exact absurd rfl hs
  | ok item =>
    dsimp only
    have : ∀ x : PS, (closeTail item x).1 ≠ .panic := by
      intro x; unfold closeTail; dsimp only; split <;> simp
    split <;> exact this _

/-- after the item's `recover`: never `panic`, and `stop` has an error behind it -/
theorem recoverItem_stop_err (lab : Tok) (body : R Tmpl × PS) (hb : body.1 = .stop → body.2.errs ≠ [])
    (h : (recoverItem lab body).1 = .stop) : (recoverItem lab body).2.errs ≠ [] := by
  obtain ⟨r, s⟩ := body
  unfold recoverItem at h ⊢
  cases r with
  | panic => simp [PS.warn, PS.err]
  | stop => exact hb rfl
  | ok t => cases h

theorem recoverItem_not_panic (lab : Tok) (body : R Tmpl × PS) : (recoverItem lab body).1 ≠ .panic := by
  obtain ⟨r, s⟩ := body
  unfold recoverItem
  cases r <;> simp

theorem itemBody_stop_err (ll : PS → R Tmpl × PS) (s : PS)
    (hll : ∀ x : PS, x.toks.length + 1 ≤ s.toks.length → (ll x).1 = .stop → (ll x).2.errs ≠ [])
    (h : (itemBody ll s).1 = .stop) : (itemBody ll s).2.errs ≠ [] := by
  generalize hres : itemBody ll s = res at h ⊢
  unfold itemBody at hres
  dsimp only at hres
  split at hres
  · subst hres; simp
  · rename_i hty
    have hne : s.toks ≠ [] := by
      intro hn
      have := peek_nil_kind s hn
      rw [this] at hty
      exact absurd hty (by decide)
    have hp := pop_length s hne
    have hsd := (sizeDecl_suf s.pop).length_le
    split at hres
    · subst hres; simp
    · subst hres
      apply closeItem_stop_err _ _ _ _ _ _ h
      intro hstop
      split at hstop
      · rename_i hL; simp only [if_pos hL]; exact hll _ (by omega) hstop
      · rename_i hL
        simp only [if_neg hL]
        split at hstop
        · rename_i hA; simp only [if_pos hA]; exact asciiItem_stop_err _ _ _ hstop
        · rename_i hA; simp only [if_neg hA]; exact arrayItem_stop_err _ _ hstop

theorem parseItemF_not_panic : ∀ (fuel : Nat) (s : PS), (parseItemF fuel s).1 ≠ .panic
  | 0, s => by simp [parseItemF]
  | fuel + 1, s => by
    unfold parseItemF
    dsimp only
    split
    · simp
    · exact recoverItem_not_panic _ _

theorem parseItem_stop_err : ∀ fuel : Nat,
    (∀ s : PS, s.toks.length < fuel → (parseItemF fuel s).1 = .stop → (parseItemF fuel s).2.errs ≠ []) ∧
    (∀ (c : Nat) (acc : List GoVal) (s : PS), s.toks.length + 2 ≤ fuel →
      (parseItemF.listLoop fuel c acc s).1 = .stop → (parseItemF.listLoop fuel c acc s).2.errs ≠ [])
  | 0 => ⟨fun s h => by omega, fun c acc s h => by omega⟩
  | fuel + 1 => by
    have ih := parseItem_stop_err fuel
    constructor
    · intro s hf h
      generalize hres : parseItemF (fuel + 1) s = res at h ⊢
      unfold parseItemF at hres
      dsimp only at hres
      split at hres
      · subst hres; simp
      · rename_i hlab
        have hne : s.toks ≠ [] := by
          intro hn
          have := peek_nil_kind s hn
          rw [this] at hlab
          exact absurd hlab (by decide)
        have hp := pop_length s hne
        subst hres
        apply recoverItem_stop_err _ _ _ h
        intro hb
        exact itemBody_stop_err _ _ (fun x hx => ih.2 0 [] x (by omega)) hb
    · intro c acc s hf h
      generalize hres : parseItemF.listLoop (fuel + 1) c acc s = res at h ⊢
      unfold parseItemF.listLoop at hres
      dsimp only at hres
      split at hres
      · -- child item
        rename_i hk
        cases fuel with
        | zero => omega
        | succ j =>
          have hc := parseItemF_consumes j s hk
          have hnp := parseItemF_not_panic (j + 1) s
          have hst := ih.1 s (by omega)
          cases hch : parseItemF (j + 1) s with
          | mk r s1 =>
            rw [hch] at hres hc hnp hst
            cases r with
            | ok child =>
              subst hres
              exact ih.2 _ _ s1 (by simp at hc; omega) h
            | stop => subst hres; exact hst rfl
            | panic => exact absurd rfl hnp
      · -- variable
        rename_i hk
        have hne := toks_ne_nil_of_kind s _ (by decide) hk
        have hp := pop_length s hne
        split at hres
        · subst hres; exact ih.2 _ _ _ (by simp [PS.err]; omega) h
        · subst hres; exact ih.2 _ _ _ (by simp [PS.addName]; omega) h
      · -- ellipsis
        rename_i hk
        have hne := toks_ne_nil_of_kind s _ (by decide) hk
        have hp := pop_length s hne
        split at hres
        · subst hres; simp
        · split at hres
          · subst hres; exact ih.2 _ _ _ (by simp [PS.warn, PS.bumpEll]; omega) h
          · subst hres; exact ih.2 _ _ _ (by simp [PS.bumpEll]; omega) h
      · subst hres
        simp only [ofFactory] at h
        split at h <;> cases h
      · subst hres; simp
      · subst hres; simp

/-- the message text: anything but an item leaves an error -/
theorem msgItem_not_ok_err (s : PS) (h : ∀ t, (msgItem s).1 ≠ .ok t) : (msgItem s).2.errs ≠ [] := by
  generalize hres : msgItem s = res at h ⊢
  unfold msgItem at hres
  dsimp only at hres
  split at hres
  · subst hres; exact absurd rfl (h _)
  · split at hres
    · subst hres
      have hnp := parseItemF_not_panic (s.toks.length + 1) s
      have hst := (parseItem_stop_err (s.toks.length + 1)).1 s (by omega)
      cases hr : (parseItemF (s.toks.length + 1) s).1 with
      | ok t => exact absurd hr (h t)
      | stop => exact hst hr
      | panic => exact absurd hr hnp
    · subst hres; simp

/-- **A message that is not built has been reported**: `parseMessage` returning `none` leaves
an error in the state. -/
theorem parseMessage_none_err (s : PS) (h : (parseMessage s).1 = none) : (parseMessage s).2.errs ≠ [] := by
  generalize hres : parseMessage s = res at h ⊢
  unfold parseMessage at hres
  dsimp only at hres
  split at hres
  · subst hres; simp
  · subst hres
    have hno := msgItem_not_ok_err (nameOf (directionOf (waitBitOf (streamFunction s.resetScope.pop s.resetScope.peek).2.1
      (streamFunction s.resetScope.pop s.resetScope.peek).2.2).2).2).2
    generalize hmi : msgItem _ = mi at h hno ⊢
    unfold finishMsg at h ⊢
    cases hk : mi.1 with
    | ok it =>
      simp only [hk] at h ⊢
      split
      · simp
      · rename_i he
        exfalso
        rw [if_neg he] at h
        split at h <;> simp at h
    | stop => simp only [hk]; exact hno (by intro t ht; rw [hk] at ht; cases ht)
    | panic => simp only [hk]; exact hno (by intro t ht; rw [hk] at ht; cases ht)

/-- **No error means the loop ran to the end of the tokens**: a run of the message loop that
reports no error stopped because it saw an end-of-input token. -/
theorem parseLoop_clean_at_eof : ∀ (fuel : Nat) (s : PS) (acc : List Msg) (ms : List Msg) (sEnd : PS),
    s.toks.length < fuel → parseLoop fuel s acc = some (ms, sEnd) → sEnd.errs = [] → sEnd.peek.kind = .eof
  | 0, s, _, _, _, hf, _, _ => by omega
  | fuel + 1, s, acc, ms, sEnd, hf, h, he => by
    unfold parseLoop at h
    split at h
    · rename_i hk
      injection h with h; injection h with _ h2
      subst h2
      exact kind_of_beq _ _ hk
    · have hc := parseMessage_consumes s
      have hn := parseMessage_none_err s
      cases hm : parseMessage s with
      | mk o s1 =>
        rw [hm] at h hc hn
        cases o with
        | none =>
          injection h with h; injection h with _ h2
          subst h2
          exact absurd he (hn rfl)
        | some om =>
          cases om with
          | none => cases h
          | some m =>
            have := hc (by simp)
            exact parseLoop_clean_at_eof fuel s1 (m :: acc) ms sEnd (by simp at this; omega) h he

end Sml
end Secs
