/- Helper lemmas about big-endian bytes and item headers. -/
import SecsModel.Basic
import SecsModel.Model.Item
namespace Secs

theorem beEnc_length (k n : Nat) : (beEnc k n).length = k := by
  induction k generalizing n with
  | zero => rfl
  | succ k ih => simp [beEnc, ih]

theorem beDec_append (xs : Bytes) (b : Nat) : beDec (xs ++ [b]) = beDec xs * 256 + b := by
  simp [beDec, List.foldl_append]

theorem beDec_beEnc (k n : Nat) (h : n < 256 ^ k) : beDec (beEnc k n) = n := by
  induction k generalizing n with
  | zero => simp [beEnc, beDec] at *; omega
  | succ k ih =>
    rw [beEnc, beDec_append, ih]
    · omega
    · rw [Nat.pow_succ] at h; omega

/-- `beEnc k` only sees `n mod 256^k` -/
theorem beEnc_mod (k n : Nat) : beEnc k (n % 256 ^ k) = beEnc k n := by
  induction k generalizing n with
  | zero => rfl
  | succ k ih =>
    simp only [beEnc]
    have h1 : n % 256 ^ (k + 1) % 256 = n % 256 := by
      rw [Nat.pow_succ, Nat.mul_comm]; exact Nat.mod_mul_right_mod n 256 (256 ^ k)
    have h2 : n % 256 ^ (k + 1) / 256 = n / 256 % 256 ^ k := by
      rw [Nat.pow_succ, Nat.mul_comm]; exact Nat.mod_mul_right_div_self n 256 (256 ^ k)
    rw [h1, h2, ih]

theorem beEnc_isBytes (k n : Nat) : IsBytes (beEnc k n) := by
  induction k generalizing n with
  | zero => intro b hb; simp [beEnc] at hb
  | succ k ih =>
    intro b hb
    simp only [beEnc, List.mem_append, List.mem_singleton] at hb
    rcases hb with hb | hb
    · exact ih _ b hb
    · omega

theorem foldl_be_eq (bs : Bytes) (acc : Nat) :
    bs.foldl (fun a b => a * 256 + b) acc = acc * 256 ^ bs.length + beDec bs := by
  induction bs generalizing acc with
  | nil => simp [beDec]
  | cons b r ih =>
    simp only [List.foldl_cons, List.length_cons, beDec]
    rw [ih (acc * 256 + b), ih (0 * 256 + b)]
    simp only [Nat.pow_succ, Nat.zero_mul, Nat.zero_add]
    rw [Nat.add_mul, Nat.mul_assoc, Nat.mul_comm 256 (256 ^ r.length)]
    omega

theorem beDec_cons (b : Nat) (r : Bytes) : beDec (b :: r) = b * 256 ^ r.length + beDec r := by
  have := foldl_be_eq r (0 * 256 + b)
  simp only [Nat.zero_mul, Nat.zero_add] at this
  simpa [beDec] using this

theorem beDec_lt (bs : Bytes) (h : IsBytes bs) : beDec bs < 256 ^ bs.length := by
  induction bs with
  | nil => simp [beDec]
  | cons b r ih =>
    have hb : b < 256 := h b (by simp)
    have hr : IsBytes r := fun x hx => h x (by simp [hx])
    have := ih hr
    rw [beDec_cons]
    simp only [List.length_cons, Nat.pow_succ]
    have h2 : b * 256 ^ r.length ≤ 255 * 256 ^ r.length := Nat.mul_le_mul_right _ (by omega)
    omega

theorem beEnc_head (k n : Nat) : beEnc (k + 1) n = (n / 256 ^ k % 256) :: beEnc k n := by
  induction k generalizing n with
  | zero => simp [beEnc]
  | succ k ih =>
    rw [beEnc, ih (n / 256)]
    simp only [List.cons_append]
    congr 1
    rw [Nat.div_div_eq_div_mul, Nat.pow_succ, Nat.mul_comm]

/-- bytes are determined by the number they accumulate to -/
theorem beEnc_beDec (bs : Bytes) (h : IsBytes bs) : beEnc bs.length (beDec bs) = bs := by
  induction bs with
  | nil => rfl
  | cons b r ih =>
    have hb : b < 256 := h b (by simp)
    have hr : IsBytes r := fun x hx => h x (by simp [hx])
    have hlt := beDec_lt r hr
    rw [List.length_cons, beEnc_head, beDec_cons]
    have hp : 0 < 256 ^ r.length := Nat.pow_pos (by omega)
    have h1 : (b * 256 ^ r.length + beDec r) / 256 ^ r.length = b := by
      rw [Nat.mul_comm, Nat.mul_add_div hp, Nat.div_eq_of_lt hlt]; omega
    have h2 : beEnc r.length (b * 256 ^ r.length + beDec r) = beEnc r.length (beDec r) := by
      rw [← beEnc_mod, Nat.mul_comm, Nat.mul_add_mod, Nat.mod_eq_of_lt hlt]
    rw [h1, h2, ih hr, Nat.mod_eq_of_lt hb]

theorem nLB_pos (n : Nat) : 1 ≤ nLB n ∧ nLB n ≤ 3 := by
  unfold nLB; split
  · omega
  · split <;> omega

theorem nLB_ok (n : Nat) (h : n ≤ maxByteSize) : n < 256 ^ nLB n := by
  unfold maxByteSize at h
  unfold nLB; split
  · omega
  · split <;> omega

theorem Fmt.code_lt (f : Fmt) : f.code * 4 + 3 < 256 := by cases f <;> decide

/-- getHeaderBytes in closed form: format byte = code·4 + k, then the k-byte big-endian
payload length, k the least of 1, 2, 3 that fits. -/
theorem headerBytes_closed (f : Fmt) (size : Nat) (h : size * f.width ≤ maxByteSize) :
    headerBytes f size = some ((f.code * 4 + nLB (size * f.width)) :: beEnc (nLB (size * f.width)) (size * f.width)) := by
  have hc := Fmt.code_lt f
  unfold headerBytes dataByteLength
  generalize size * f.width = n at h
  unfold maxByteSize at h
  have hn : ¬ n > maxByteSize := by unfold maxByteSize; omega
  simp only [hn, if_false]
  unfold nLB
  by_cases h1 : n ≤ 255
  · have a0 : n / 65536 % 256 = 0 := by omega
    have a1 : n / 256 % 256 = 0 := by omega
    simp [h1, a0, a1, beEnc]; omega
  · by_cases h2 : n ≤ 65535
    · have a0 : n / 65536 % 256 = 0 := by omega
      have a1 : ¬ n / 256 % 256 = 0 := by omega
      simp [h1, h2, a0, a1, beEnc]; omega
    · have a0 : ¬ n / 65536 % 256 = 0 := by omega
      have a3 : n / 256 / 256 = n / 65536 := by omega
      simp [h1, h2, a0, beEnc, a3]; omega

theorem headerBytes_none (f : Fmt) (size : Nat) (h : size * f.width > maxByteSize) :
    headerBytes f size = none := by
  unfold headerBytes dataByteLength
  simp [h]

end Secs
