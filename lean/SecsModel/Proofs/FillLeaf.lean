/-
Leaf-level facts about FillVariables (one node, no nesting): unknown keys, the fill as a
factory call on the substituted slots, ASCII variables, rebuilding a node from its own slots.
The property statements built from them are in Props/C09.lean.
-/
import SecsModel.Model.Fill
import SecsModel.Props.C12
namespace Secs.FillLeaf
open Secs

/-- unknown keys are ignored: no variable of the node is bound ⇒ the node is returned as is -/
theorem fill_unknown_keys (t : Tmpl) (env : Env) (hl : t.isList = false)
    (h : ∀ n ∈ t.vars, env.get? n = none) : fillLeaf t env = some t := by
  have hb : ∀ {α} (xs : List (Slot α)), (∀ n ∈ slotVars xs, env.get? n = none) → anyBound env xs = false := by
    intro α xs hx
    simp only [anyBound, List.any_eq_false]
    intro n hn
    simp [hx n hn]
  cases t with
  | list xs => simp [Tmpl.isList] at hl
  | ascii s => rfl
  | empty => rfl
  | asciiVar n a b => simp [fillLeaf, h n (by simp [Tmpl.vars])]
  | binary xs => simp [fillLeaf, hb xs (by simpa [Tmpl.vars] using h)]
  | boolean xs => simp [fillLeaf, hb xs (by simpa [Tmpl.vars] using h)]
  | int w xs => simp [fillLeaf, hb xs (by simpa [Tmpl.vars] using h)]
  | uint w xs => simp [fillLeaf, hb xs (by simpa [Tmpl.vars] using h)]
  | float w xs => simp [fillLeaf, hb xs (by simpa [Tmpl.vars] using h)]

/-- substitution on one slot: a value stays (handed back to the factory with its own type), a
bound variable becomes the given value, an unbound variable stays a variable -/
def substSlot {α} (canon : α → GoVal) (env : Env) : Slot α → GoVal
  | .val a => canon a
  | .var n => (env.get? n).getD (.str n)

theorem fillArgs_eq_map {α} (canon : α → GoVal) (env : Env) (xs : List (Slot α)) :
    fillArgs canon env xs = xs.map (substSlot canon env) := by
  induction xs with
  | nil => rfl
  | cons x r ih =>
    cases x with
    | val a => simp [fillArgs, substSlot, ih]
    | var n => cases h : env.get? n <;> simp [fillArgs, substSlot, ih, h]

/-- a fill that binds a variable of the node is the factory applied to the substituted slots:
so it stores or refuses exactly as the constructor does -/
theorem fill_is_factory_on_substituted_slots (w : Nat) (env : Env) :
    (∀ xs, anyBound env xs = true → fillLeaf (.int w xs) env = mkInt w (xs.map (substSlot (.sint 64) env))) ∧
    (∀ xs, anyBound env xs = true → fillLeaf (.uint w xs) env = mkUint w (xs.map (substSlot (.uint 64) env))) ∧
    (∀ xs, anyBound env xs = true → fillLeaf (.boolean xs) env = mkBoolean (xs.map (substSlot .bool env))) ∧
    (∀ xs, anyBound env xs = true → fillLeaf (.binary xs) env = mkBinary (xs.map (substSlot (fun (v : Nat) => .sint 0 v) env))) := by
  refine ⟨?_, ?_, ?_, ?_⟩ <;> intro xs h <;> simp [fillLeaf, h, fillArgs_eq_map]

/-- ASCII variables: the bounds are enforced, then the ASCII factory decides -/
theorem fill_ascii_var (n : Name) (mn mx : Int) (env : Env) (s : Bytes) (h : env.get? n = some (.str s)) :
    fillLeaf (.asciiVar n mn mx) env =
      if (s.length : Int) < mn ∨ (mx ≠ -1 ∧ mx < s.length) then none else mkAscii s := by
  simp only [fillLeaf, h]
  by_cases h1 : (s.length : Int) < mn
  · simp [h1]
  · by_cases h2 : mx ≠ -1 ∧ mx < (s.length : Int)
    · have : (mx != -1 && decide (mx < (s.length : Int))) = true := by simpa using h2
      simp [h1, this, h2]
    · have : (mx != -1 && decide (mx < (s.length : Int))) = false := by
        simp only [Bool.and_eq_false_iff, bne_eq_false_iff_eq, decide_eq_false_iff_not]; omega
      have h3 : ¬ ((s.length : Int) < mn ∨ (mx ≠ -1 ∧ mx < (s.length : Int))) := by omega
      rw [if_neg h3]
      simp [h1, this]

/-- rebuilding a well-formed integer node from its own slots gives the node back -/
theorem rebuild_slots_int (xs : List (Slot Int)) (hv : ∀ s ∈ xs, ∀ a, s = Slot.val a → (-(2:Int)^63 ≤ a ∧ a ≤ 2^63 - 1)) :
    mkSlots convInt (xs.map (substSlot (.sint 64) [])) = some xs := by
  induction xs with
  | nil => rfl
  | cons x r ih =>
    have ihr := ih (fun s hs => hv s (by simp [hs]))
    cases x with
    | val a => simp [substSlot, mkSlots, convInt, ihr]
    | var n => simp [substSlot, Env.get?, mkSlots, convInt, ihr]

theorem rebuild_int (w : Nat) (xs : List (Slot Int)) (hw : (Tmpl.int w xs).wf = true) :
    mkInt w (xs.map (substSlot (.sint 64) [])) = some (.int w xs) := by
  simp only [Tmpl.wf, Bool.and_eq_true, decide_eq_true_eq] at hw
  obtain ⟨⟨hwv, hmax⟩, hok⟩ := hw
  have hwidth : optWidth (intFmt? w) = w := by
    simp only [validWidthInt, Bool.or_eq_true, beq_iff_eq] at hwv
    rcases hwv with ((rfl | rfl) | rfl) | rfl <;> rfl
  have hs := rebuild_slots_int xs (by
    intro s hs a ha
    have hall := hok
    simp only [slotsOk, Bool.and_eq_true, List.all_eq_true] at hall
    have := hall.1 s hs
    subst ha
    simp only [intInRange, Bool.and_eq_true, decide_eq_true_eq] at this
    simp only [validWidthInt, Bool.or_eq_true, beq_iff_eq] at hwv
    rcases hwv with ((rfl | rfl) | rfl) | rfl <;> simp at this <;> omega)
  unfold mkInt
  simp only [hwidth, List.length_map, hs]
  have : ¬ xs.length * w > maxByteSize := by omega
  simp [this, hwv, hok]

/-! ### non-vacuity -/
example : (fillLeaf (.int 2 [.val 5, .var [120], .var [121]]) [([120], .sint 8 (-3))]).map Tmpl.vars
    = some [[121]] := by decide
example : (fillLeaf (.int 1 [.var [120]]) [([120], .sint 0 300)]).isNone = true := by decide

end Secs.FillLeaf
