/-
The SML parser model never takes the `.panic` outcome: the only call that is not under a
recover is NewDataMessage at the end of a message, and the arguments the parser hands to it are
always in its domain — stream and function clamped, the wait bit never `W` on an even function,
the direction one of the three the lexer can produce, the name free of white space because the
lexer ends a name at the first white-space rune.
-/
import SecsModel.Proofs.NameRunes
import SecsModel.Model.Parser
namespace Secs
namespace Sml
open Lex

/-- the range checks of parseStreamFunctionCode on the two converted numbers -/
def clampSF' (st fn : Int) (s : PS) (t : Tok) : Int × Int × PS :=
  let (st, s) := if 0 ≤ st && st < 128 then (st, s) else (0, s.err t "stream code range overflow, should be in range of [0, 128)")
  let (fn, s) := if 0 ≤ fn && fn < 256 then (fn, s) else (0, s.err t "function code range overflow, should be in range of [0, 256)")
  (st, fn, s)

theorem streamFunction_eq' (s : PS) (t : Tok) :
    streamFunction s t = clampSF' (Strconv.atoi ((t.val.take ((indexByte 70 t.val).getD 0)).drop 1)).val
      (Strconv.atoi (t.val.drop ((indexByte 70 t.val).getD 0 + 1))).val s t := rfl

/-! ### the parser only ever drops tokens from the front -/

@[simp] theorem err_toks (s : PS) (t : Tok) (k : String) : (s.err t k).toks = s.toks := rfl
@[simp] theorem warn_toks (s : PS) (t : Tok) (k : String) : (s.warn t k).toks = s.toks := rfl
@[simp] theorem clearSkip_toks (s : PS) : s.clearSkip.toks = s.toks := rfl
@[simp] theorem addName_toks (s : PS) (n : Name) : (s.addName n).toks = s.toks := rfl
@[simp] theorem bumpEll_toks (s : PS) : s.bumpEll.toks = s.toks := rfl
@[simp] theorem resetScope_toks (s : PS) : s.resetScope.toks = s.toks := rfl
@[simp] theorem pop_toks (s : PS) : s.pop.toks = s.toks.drop 1 := rfl

theorem suf_pop (s : PS) : s.pop.toks <:+ s.toks := by simpa using List.drop_suffix 1 s.toks
theorem suf_pop_of {a : List Tok} (s : PS) (h : s.toks <:+ a) : s.pop.toks <:+ a :=
  List.IsSuffix.trans (suf_pop s) h

theorem valueTokens_suf : ∀ (fuel : Nat) (s : PS), (valueTokens fuel s).2.toks <:+ s.toks
  | 0, s => by simp [valueTokens]
  | fuel + 1, s => by
    unfold valueTokens
    simp only
    split
    all_goals first
      | exact List.IsSuffix.trans (valueTokens_suf fuel s.pop) (suf_pop s)
      | exact List.suffix_refl _
      | exact suf_pop s

theorem varArg_toks (s : PS) (t : Tok) (g : GoVal) : (varArg s t g).2.toks = s.toks := by
  unfold varArg
  split <;> rfl

theorem arrayArg_toks' (ty : Bytes) (w : Nat) (s : PS) (t : Tok) :
    (arrayArg ty w s t).map (fun r => r.2.toks) = (arrayArg ty w s t).map (fun _ => s.toks) := by
  unfold arrayArg
  simp only
  repeat' split
  all_goals simp [varArg_toks]

theorem arrayArg_toks (ty : Bytes) (w : Nat) (s : PS) (t : Tok) (g : GoVal) (s' : PS)
    (h : arrayArg ty w s t = some (g, s')) : s'.toks = s.toks := by
  have := arrayArg_toks' ty w s t
  rw [h] at this
  simpa using this

theorem arrayArgs_toks (ty : Bytes) (w : Nat) : ∀ (ts : List Tok) (s : PS), (arrayArgs ty w ts s).2.toks = s.toks
  | [], s => rfl
  | t :: r, s => by
    unfold arrayArgs
    split
    · rfl
    · cases h : arrayArg ty w s t with
      | none => rfl
      | some p =>
        simp only
        have h1 := arrayArg_toks ty w s t p.1 p.2 h
        have h2 := arrayArgs_toks ty w r p.2
        cases h3 : arrayArgs ty w r p.2 with
        | mk o s2 =>
          rw [h3] at h2
          cases o <;> simp_all

theorem asciiLoop_toks (mn mx : Int) (n : Nat) : ∀ (ts : List Tok) (lit : Bytes) (s : PS),
    (asciiLoop mn mx n ts lit s).2.toks = s.toks
  | [], lit, s => rfl
  | t :: r, lit, s => by
    unfold asciiLoop
    dsimp only
    repeat' split
    all_goals first
      | rfl
      | (rw [asciiLoop_toks mn mx n r]; done)
      | (rw [asciiLoop_toks mn mx n r]; rfl)
      | (rw [asciiLoop_toks mn mx n r]; simp; split <;> rfl)

theorem sizeDecl_suf (s : PS) : (sizeDecl s).2.2.2.toks <:+ s.toks := by
  unfold sizeDecl
  dsimp only
  split
  · exact suf_pop s
  · exact List.suffix_refl _

theorem asciiItem_suf (lo hi : Int) (s : PS) : (asciiItem lo hi s).2.toks <:+ s.toks := by
  unfold asciiItem
  dsimp only
  rw [asciiLoop_toks]
  exact valueTokens_suf _ s

theorem arrayItem_suf (ty : Bytes) (s : PS) : (arrayItem ty s).2.toks <:+ s.toks := by
  unfold arrayItem
  dsimp only
  have h := arrayArgs_toks ty (widthOfType ty) (valueTokens (s.toks.length + 1) s).1 (valueTokens (s.toks.length + 1) s).2
  cases h2 : arrayArgs ty (widthOfType ty) (valueTokens (s.toks.length + 1) s).1 (valueTokens (s.toks.length + 1) s).2 with
  | mk o s2 =>
    rw [h2] at h
    cases o <;> simp only [] <;> rw [show s2.toks = _ from h] <;> exact valueTokens_suf _ s

theorem closeTail_suf (item : Tmpl) (s : PS) : (closeTail item s).2.toks <:+ s.toks := by
  unfold closeTail
  dsimp only
  split
  · exact List.suffix_refl _
  · exact suf_pop _

theorem closeItem_suf (sizeTok : Tok) (lo hi : Int) (res : R Tmpl) (s : PS) :
    (closeItem sizeTok lo hi res s).2.toks <:+ s.toks := by
  unfold closeItem
  cases res with
  | stop => exact List.suffix_refl _
  | panic => exact List.suffix_refl _
  | ok item =>
    dsimp only
    split
    · exact closeTail_suf item _
    · exact closeTail_suf item _

theorem recoverItem_toks (lab : Tok) (body : R Tmpl × PS) : (recoverItem lab body).2.toks = body.2.toks := by
  unfold recoverItem
  split <;> rfl

theorem itemBody_suf (ll : PS → R Tmpl × PS) (hll : ∀ s, (ll s).2.toks <:+ s.toks) (s : PS) :
    (itemBody ll s).2.toks <:+ s.toks := by
  unfold itemBody
  dsimp only
  split
  · exact List.suffix_refl _
  · split
    · exact suf_pop s
    · refine List.IsSuffix.trans (closeItem_suf _ _ _ _ _) ?_
      refine List.IsSuffix.trans ?_ (List.IsSuffix.trans (sizeDecl_suf s.pop) (suf_pop s))
      split
      · exact hll _
      · split
        · exact asciiItem_suf _ _ _
        · exact arrayItem_suf _ _

theorem parseItem_suf : ∀ fuel : Nat,
    (∀ s : PS, (parseItemF fuel s).2.toks <:+ s.toks) ∧
    (∀ (count : Nat) (acc : List GoVal) (s : PS), (parseItemF.listLoop fuel count acc s).2.toks <:+ s.toks)
  | 0 => ⟨fun s => by simp [parseItemF], fun c a s => by simp [parseItemF.listLoop]⟩
  | fuel + 1 => by
    have ih := parseItem_suf fuel
    constructor
    · intro s
      unfold parseItemF
      dsimp only
      split
      · exact List.suffix_refl _
      · rw [recoverItem_toks]
        exact List.IsSuffix.trans (itemBody_suf _ (ih.2 0 []) s.pop) (suf_pop s)
    · intro count acc s
      unfold parseItemF.listLoop
      dsimp only
      split
      · -- lab
        have h1 := ih.1 s
        cases h : parseItemF fuel s with
        | mk r s1 =>
          rw [h] at h1
          cases r with
          | ok child => exact List.IsSuffix.trans (ih.2 _ _ s1) h1
          | stop => exact h1
          | panic => exact h1
      · -- variable
        split
        · exact List.IsSuffix.trans (ih.2 _ _ _) (suf_pop s)
        · exact List.IsSuffix.trans (ih.2 _ _ _) (suf_pop s)
      · -- ellipsis
        split
        · exact suf_pop s
        · split
          · exact List.IsSuffix.trans (ih.2 _ _ _) (suf_pop s)
          · exact List.IsSuffix.trans (ih.2 _ _ _) (suf_pop s)
      · exact List.suffix_refl _
      · exact List.suffix_refl _
      · exact List.suffix_refl _

theorem waitBitOf_suf (fn : Int) (s : PS) : (waitBitOf fn s).2.toks <:+ s.toks := by
  unfold waitBitOf
  dsimp only
  repeat' split
  all_goals first
    | exact suf_pop s
    | exact List.suffix_refl _

theorem directionOf_suf (s : PS) : (directionOf s).2.toks <:+ s.toks := by
  unfold directionOf
  dsimp only
  split
  · exact suf_pop s
  · exact List.suffix_refl _

theorem nameOf_suf (s : PS) : (nameOf s).2.toks <:+ s.toks := by
  unfold nameOf
  dsimp only
  split
  · exact suf_pop s
  · exact List.suffix_refl _

theorem msgItem_suf (s : PS) : (msgItem s).2.toks <:+ s.toks := by
  unfold msgItem
  dsimp only
  split
  · exact List.suffix_refl _
  · split
    · exact (parseItem_suf _).1 s
    · exact List.suffix_refl _

theorem finishMsg_suf (name : Bytes) (st fn wb : Int) (dir : Bytes) (item : R Tmpl) (s : PS) :
    (finishMsg name st fn wb dir item s).2.toks <:+ s.toks := by
  unfold finishMsg
  cases item with
  | stop => exact List.suffix_refl _
  | panic => exact List.suffix_refl _
  | ok it =>
    dsimp only
    split
    · exact List.suffix_refl _
    · split
      · exact suf_pop s
      · exact suf_pop s

theorem clampSF_toks (st fn : Int) (s : PS) (t : Tok) : (clampSF' st fn s t).2.2.toks = s.toks := by
  unfold clampSF'
  dsimp only
  split <;> split <;> rfl

theorem streamFunction_toks (s : PS) (t : Tok) : (streamFunction s t).2.2.toks = s.toks := by
  rw [streamFunction_eq']; exact clampSF_toks _ _ s t

theorem parseMessage_suf (s : PS) : (parseMessage s).2.toks <:+ s.toks := by
  unfold parseMessage
  dsimp only
  split
  · exact List.suffix_refl _
  · refine List.IsSuffix.trans (finishMsg_suf _ _ _ _ _ _ _) ?_
    refine List.IsSuffix.trans (msgItem_suf _) ?_
    refine List.IsSuffix.trans (nameOf_suf _) ?_
    refine List.IsSuffix.trans (directionOf_suf _) ?_
    refine List.IsSuffix.trans (waitBitOf_suf _ _) ?_
    rw [streamFunction_toks]
    exact suf_pop _

/-! ### what the lexer guarantees about the two header tokens the constructor checks -/

def nameOk (v : Bytes) : Prop := (Utf8.runes v).any Utf8.isSpace = false
def dirOk (v : Bytes) : Prop := v = dirHE ∨ v = dirEH ∨ v = dirBoth
def TokInv (t : Tok) : Prop := (t.kind = .direction → dirOk t.val) ∧ (t.kind = .msgName → nameOk t.val)

theorem peek_inv (s : PS) (h : ∀ t ∈ s.toks, TokInv t) : TokInv s.peek := by
  unfold PS.peek
  cases hs : s.toks with
  | nil => exact ⟨fun hk => by simp [eofClosed] at hk, fun hk => by simp [eofClosed] at hk⟩
  | cons t r => exact h t (by simp [hs])

theorem inv_of_suf {a b : List Tok} (h : a <:+ b) (hb : ∀ t ∈ b, TokInv t) : ∀ t ∈ a, TokInv t :=
  fun t ht => hb t (h.subset ht)

theorem waitBitOf_ok (fn : Int) (s : PS) :
    ((waitBitOf fn s).1 = 0 ∨ (waitBitOf fn s).1 = 1 ∨ (waitBitOf fn s).1 = 2) ∧
    ((waitBitOf fn s).1 = 1 → fn % 2 ≠ 0) := by
  unfold waitBitOf
  dsimp only
  repeat' split
  all_goals simp_all

theorem clampSF_range (st fn : Int) (s : PS) (t : Tok) :
    (0 ≤ (clampSF' st fn s t).1 ∧ (clampSF' st fn s t).1 < 128) ∧
    (0 ≤ (clampSF' st fn s t).2.1 ∧ (clampSF' st fn s t).2.1 < 256) := by
  unfold clampSF'
  by_cases h1 : (decide (0 ≤ st) && decide (st < 128)) = true <;>
    by_cases h2 : (decide (0 ≤ fn) && decide (fn < 256)) = true <;> simp [h1, h2] <;> simp_all

theorem mkMsg_some (name : Bytes) (st fn wb : Int) (dir : Bytes) (it : Tmpl)
    (hn : nameOk name) (hst : 0 ≤ st ∧ st < 128) (hfn : 0 ≤ fn ∧ fn < 256)
    (hwb : wb = 0 ∨ wb = 1 ∨ wb = 2) (hw1 : wb = 1 → fn % 2 ≠ 0) (hd : dirOk dir) :
    ∃ m, mkMsg name st fn wb dir it = some m := by
  unfold mkMsg checked
  have hv : Msg.valid ⟨name, st, fn, wb, dir, it, -1, [0, 0, 0, 0]⟩ = true := by
    unfold Msg.valid
    unfold nameOk at hn
    simp only [hn, Bool.not_false, Bool.true_and, Bool.and_eq_true, decide_eq_true_eq, Bool.not_eq_true',
      Bool.and_eq_false_iff, beq_eq_false_iff_ne, ne_eq, Bool.or_eq_true, beq_iff_eq]
    refine ⟨⟨⟨⟨⟨⟨hst, hfn⟩, ?_⟩, ?_⟩, by decide⟩, by decide⟩, ?_⟩
    · by_cases h : wb = 1
      · right; exact hw1 h
      · left; exact h
    · rcases hwb with h | h | h <;> subst h <;> decide
    · rcases hd with h | h | h
      · left; left; exact h
      · left; right; exact h
      · right; exact h
  rw [if_pos hv]
  exact ⟨_, rfl⟩

theorem kind_of_beq (a b : Kind) : (a == b) = true → a = b := by
  cases a <;> cases b <;> first | (intro _; rfl) | (intro h; exact absurd h (by decide))

theorem directionOf_ok (s : PS) (h : ∀ t ∈ s.toks, TokInv t) : dirOk (directionOf s).1 := by
  unfold directionOf
  dsimp only
  split
  · rename_i hk
    exact (peek_inv s h).1 (kind_of_beq _ _ hk)
  · right; right; rfl

theorem nameOf_ok (s : PS) (h : ∀ t ∈ s.toks, TokInv t) : nameOk (nameOf s).1 := by
  unfold nameOf
  dsimp only
  split
  · rename_i hk
    exact (peek_inv s h).2 (kind_of_beq _ _ hk)
  · show nameOk []
    unfold nameOk; decide

theorem finishMsg_no_panic (name : Bytes) (st fn wb : Int) (dir : Bytes) (item : R Tmpl) (s : PS)
    (hm : ∀ it, ∃ m, mkMsg name st fn wb dir it = some m) :
    (finishMsg name st fn wb dir item s).1 ≠ some none := by
  unfold finishMsg
  cases item with
  | stop => simp
  | panic => simp
  | ok it =>
    dsimp only
    split
    · simp
    · obtain ⟨m, hm⟩ := hm it
      rw [hm]
      simp

/-- a message never makes NewDataMessage refuse -/
theorem parseMessage_no_panic (s : PS) (h : ∀ t ∈ s.toks, TokInv t) : (parseMessage s).1 ≠ some none := by
  unfold parseMessage
  dsimp only
  split
  · simp
  · apply finishMsg_no_panic
    intro it
    have h0 : ∀ t ∈ s.resetScope.pop.toks, TokInv t := inv_of_suf (suf_pop _) h
    have h1 : ∀ t ∈ (streamFunction s.resetScope.pop s.resetScope.peek).2.2.toks, TokInv t := by
      rw [streamFunction_toks]; exact h0
    have h2 := inv_of_suf (waitBitOf_suf (streamFunction s.resetScope.pop s.resetScope.peek).2.1 _) h1
    have h3 := inv_of_suf (directionOf_suf _) h2
    have hr := clampSF_range (Strconv.atoi ((s.resetScope.peek.val.take ((indexByte 70 s.resetScope.peek.val).getD 0)).drop 1)).val
      (Strconv.atoi (s.resetScope.peek.val.drop ((indexByte 70 s.resetScope.peek.val).getD 0 + 1))).val s.resetScope.pop s.resetScope.peek
    rw [← streamFunction_eq'] at hr
    have hw := waitBitOf_ok (streamFunction s.resetScope.pop s.resetScope.peek).2.1 (streamFunction s.resetScope.pop s.resetScope.peek).2.2
    exact mkMsg_some _ _ _ _ _ it (nameOf_ok _ h3) hr.1 hr.2 hw.1 hw.2 (directionOf_ok _ h2)

/-- the message loop never takes the panic exit on token streams the lexer can produce -/
theorem parseLoop_no_panic : ∀ (fuel : Nat) (s : PS) (acc : List Msg), (∀ t ∈ s.toks, TokInv t) →
    parseLoop fuel s acc ≠ none
  | 0, s, acc, _ => by simp [parseLoop]
  | fuel + 1, s, acc, h => by
    unfold parseLoop
    split
    · simp
    · have hp := parseMessage_no_panic s h
      have hs := parseMessage_suf s
      cases hm : parseMessage s with
      | mk o s1 =>
        rw [hm] at hp hs
        cases o with
        | none => simp
        | some om =>
          cases om with
          | none => exact absurd rfl hp
          | some m => exact parseLoop_no_panic fuel s1 (m :: acc) (inv_of_suf hs h)

theorem parseToks_no_panic (toks : List Tok) (h : ∀ t ∈ toks, TokInv t) : parseToks toks ≠ .panic := by
  unfold parseToks
  have := parseLoop_no_panic (toks.length + 1) { toks := toks } [] h
  cases hp : parseLoop (toks.length + 1) { toks := toks } [] with
  | none => exact absurd hp this
  | some r =>
    simp only
    split <;> simp


/-! ### the lexer establishes the invariant -/

theorem upper_h (h : Nat) (hc : (h == 72 || h == 104) = true) : toUpperB h = 72 := by
  simp only [Bool.or_eq_true, beq_iff_eq] at hc
  rcases hc with rfl | rfl <;> decide

theorem upper_e (e : Nat) (hc : (e == 69 || e == 101) = true) : toUpperB e = 69 := by
  simp only [Bool.or_eq_true, beq_iff_eq] at hc
  rcases hc with rfl | rfl <;> decide

theorem matchDir_ok (s v : Bytes) (h : matchDir s = some v) : dirOk (upper v) := by
  unfold matchDir at h
  cases s with
  | nil => cases h
  | cons hh r =>
    simp only at h
    by_cases hc : (hh == 72 || hh == 104) = true
    · rw [if_pos hc] at h
      have hu := upper_h hh hc
      split at h
      · rename_i e tl
        by_cases he : (e == 69 || e == 101) = true
        · rw [if_pos he] at h
          cases h
          left
          simp [upper, hu, upper_e e he, dirHE]; decide
        · rw [if_neg he] at h; cases h
      · rename_i e tl
        by_cases he : (e == 69 || e == 101) = true
        · rw [if_pos he] at h
          cases h
          right; right
          simp [upper, hu, upper_e e he, dirBoth]; decide
        · rw [if_neg he] at h; cases h
      · rename_i e tl _
        by_cases he : (e == 69 || e == 101) = true
        · rw [if_pos he] at h
          cases h
          right; left
          simp [upper, hu, upper_e e he, dirEH]; decide
        · rw [if_neg he] at h; cases h
      · cases h
    · rw [if_neg hc] at h; cases h

/-- after the header state skipped white space, the input is empty or starts with a rune that is
not white space -/
theorem skipWs_header_post : ∀ (fuel : Nat) (p : Pos), p.rest.length ≤ fuel →
    (skipWs .header fuel p).rest = [] ∨ Utf8.isSpace (Utf8.decodeRune (skipWs .header fuel p).rest).1 = false := by
  intro fuel
  induction fuel with
  | zero =>
    intro p h
    left
    simp only [skipWs]
    exact List.eq_nil_of_length_eq_zero (by omega)
  | succ n ih =>
    intro p h
    rw [skipWs]
    cases hp : p.rest with
    | nil => left; simp [hp]
    | cons b r =>
      simp only
      have hl : ∀ bs : Bytes, bs ≠ [] → (advance p bs).rest.length ≤ n := by
        intro bs hbs
        rw [advance_length, hp]
        have : 0 < bs.length := List.length_pos_iff.mpr hbs
        rw [hp] at h
        simp only [List.length_cons] at h ⊢
        omega
      split
      · exact ih _ (hl [b] (by simp))
      · rename_i hnb
        split
        · rename_i hlt
          split
          · exact ih _ (hl [b] (by simp))
          · rename_i hns
            right
            rw [hp]
            have : Utf8.decodeRune (b :: r) = (b, 1) := by simp [Utf8.decodeRune, hlt]
            rw [this]
            simpa using hns
        · split
          · exact ih _ (hl _ (take_ne_nil _ _ (by simp) (decodeRune_width_pos b r)))
          · rename_i hns
            right
            rw [hp]
            simpa using hns

/-- every token the header state emits satisfies the invariant -/
theorem stepHeader_inv (p : Pos) (hpost : p.rest = [] ∨ Utf8.isSpace (Utf8.decodeRune p.rest).1 = false)
    (t : Tok) (m : Mode) (q : Pos) (h : stepHeader p = .tok t m q) : TokInv t := by
  unfold stepHeader at h
  dsimp only at h
  split at h
  · cases h
  · rename_i b r hs
    have hne : p.rest ≠ [] := by rw [hs]; simp
    have triv : ∀ (k : Kind) (v raw : Bytes) (m' : Mode), k ≠ .direction → k ≠ .msgName →
        emit k v raw m' p = .tok t m q → TokInv t := by
      intro k v raw m' h1 h2 he
      simp only [emit, Step.tok.injEq] at he
      rw [← he.1]
      exact ⟨fun hk => absurd hk h1, fun hk => absurd hk h2⟩
    split at h
    · exact triv _ _ _ _ (by decide) (by decide) h
    · split at h
      · exact triv _ _ _ _ (by decide) (by decide) h
      · split at h
        · exact triv _ _ _ _ (by decide) (by decide) h
        · split at h
          · rename_i v hv
            simp only [emit, Step.tok.injEq] at h
            rw [← h.1]
            exact ⟨fun _ => matchDir_ok _ _ hv, fun hk => by simp [mkTok] at hk⟩
          · split at h
            · exact triv _ _ _ _ (by decide) (by decide) h
            · split at h
              · exact triv _ _ _ _ (by decide) (by decide) h
              · simp only [emit, Step.tok.injEq] at h
                rw [← h.1]
                refine ⟨fun hk => by simp [mkTok] at hk, fun _ => ?_⟩
                show nameOk _
                have hr : Utf8.isSpace (Utf8.decodeRune p.rest).1 = false := by
                  rcases hpost with h0 | h0
                  · exact absurd h0 hne
                  · exact h0
                have hw : max (Utf8.decodeRune p.rest).2 1 = (Utf8.decodeRune p.rest).2 := by
                  have := decodeRune_width_pos b r
                  rw [← hs] at this
                  omega
                simp only [mkTok, hw]
                obtain ⟨hp', hn'⟩ := scanName_noSpace p.rest.length (p.rest.drop (Utf8.decodeRune p.rest).2)
                exact noSpace_step p.rest _ hne hr hp' hn'

theorem stepText_inv (ual : List Nat) (p : Pos) (t : Tok) (m : Mode) (q : Pos)
    (h : stepText ual p = .tok t m q) : TokInv t := by
  rcases stepText_shape ual p with ⟨k, v, raw, m', hs, _, _⟩ | ⟨t', hs, _⟩
  · -- the text state never emits a direction or a message name
    unfold stepText at h
    dsimp only at h
    have triv : ∀ (k : Kind) (v raw : Bytes) (m' : Mode), k ≠ .direction → k ≠ .msgName →
        emit k v raw m' p = .tok t m q → TokInv t := by
      intro k v raw m' h1 h2 he
      simp only [emit, Step.tok.injEq] at he
      rw [← he.1]
      exact ⟨fun hk => absurd hk h1, fun hk => absurd hk h2⟩
    repeat' split at h
    all_goals first
      | exact triv _ _ _ _ (by decide) (by decide) h
      | cases h
  · rw [hs] at h; cases h

theorem lexFuel_inv (ual : List Nat) : ∀ (fuel : Nat) (m : Mode) (p : Pos), ∀ t ∈ lexFuel ual fuel m p, TokInv t := by
  intro fuel
  induction fuel with
  | zero => intro m p t ht; simp [lexFuel] at ht
  | succ n ih =>
    intro m p t ht
    rw [lexFuel] at ht
    cases hs : lexStep ual m p with
    | last t' =>
      rw [hs] at ht
      simp only [List.mem_singleton] at ht
      subst ht
      -- terminal tokens are EOF or error tokens
      rcases lexStep_shape ual m p with ⟨k, v, raw, m', he, _, _⟩ | ⟨t2, he, _, _, hk⟩
      · rw [he] at hs; simp [emit] at hs
      · rw [he] at hs
        injection hs with hs
        subst hs
        constructor
        · intro h
          rcases hk with hk | hk <;> rw [hk] at h <;> cases h
        · intro h
          rcases hk with hk | hk <;> rw [hk] at h <;> cases h
    | tok t' m' q =>
      rw [hs] at ht
      simp only [List.mem_cons] at ht
      rcases ht with ht | ht
      · subst ht
        unfold lexStep at hs
        cases m with
        | header => exact stepHeader_inv _ (skipWs_header_post _ p (Nat.le_refl _)) _ _ _ hs
        | text => exact stepText_inv ual _ _ _ _ hs
      · exact ih m' q t ht

/-- **The SML parser never panics**: for every input the outcome is a normal return. -/
theorem parse_no_panic (ual : List Nat) (input : Bytes) : parse ual input ≠ .panic := by
  unfold parse
  apply parseToks_no_panic
  intro t ht
  exact lexFuel_inv ual _ _ _ t (List.mem_filter.mp ht).1

end Sml
end Secs
