/-
The parser is local in the token stream: what it does up to a point does not depend on the
tokens it has not reached. If a parser function, run on `T ++ Q`, stops with more than `Q` left,
then on `T ++ Q'` it returns the same value and the same state, with `Q'` in place of `Q`.
-/
import SecsModel.Proofs.ParserFuel
namespace Secs
namespace Sml
open Lex

def PS.withToks (s : PS) (l : List Tok) : PS := { s with toks := l }

@[simp] theorem withToks_toks (s : PS) (l : List Tok) : (s.withToks l).toks = l := rfl
@[simp] theorem withToks_withToks (s : PS) (l l' : List Tok) : (s.withToks l).withToks l' = s.withToks l' := rfl
@[simp] theorem withToks_self (s : PS) : s.withToks s.toks = s := rfl
@[simp] theorem err_withToks (s : PS) (l : List Tok) (t : Tok) (k : String) : (s.withToks l).err t k = (s.err t k).withToks l := rfl
@[simp] theorem warn_withToks (s : PS) (l : List Tok) (t : Tok) (k : String) : (s.withToks l).warn t k = (s.warn t k).withToks l := rfl
@[simp] theorem addName_withToks (s : PS) (l : List Tok) (n : Name) : (s.withToks l).addName n = (s.addName n).withToks l := rfl
@[simp] theorem bumpEll_withToks (s : PS) (l : List Tok) : (s.withToks l).bumpEll = s.bumpEll.withToks l := rfl
@[simp] theorem clearSkip_withToks (s : PS) (l : List Tok) : (s.withToks l).clearSkip = s.clearSkip.withToks l := rfl
@[simp] theorem resetScope_withToks (s : PS) (l : List Tok) : (s.withToks l).resetScope = s.resetScope.withToks l := rfl
@[simp] theorem withToks_names (s : PS) (l : List Tok) : (s.withToks l).names = s.names := rfl
@[simp] theorem withToks_ell (s : PS) (l : List Tok) : (s.withToks l).ell = s.ell := rfl
@[simp] theorem withToks_skip (s : PS) (l : List Tok) : (s.withToks l).skipSize = s.skipSize := rfl
@[simp] theorem withToks_errs (s : PS) (l : List Tok) : (s.withToks l).errs = s.errs := rfl
@[simp] theorem withToks_warns (s : PS) (l : List Tok) : (s.withToks l).warns = s.warns := rfl
@[simp] theorem pop_withToks (s : PS) (l : List Tok) : (s.withToks l).pop = s.withToks (l.drop 1) := rfl
theorem peek_withToks_cons (s : PS) (t : Tok) (l : List Tok) : (s.withToks (t :: l)).peek = t := rfl

/-! ### functions that never look at the token stream -/

theorem varArg_withToks (s : PS) (l : List Tok) (t : Tok) (g : GoVal) :
    varArg (s.withToks l) t g = ((varArg s t g).1, (varArg s t g).2.withToks l) := by
  unfold varArg
  split <;> split
  · rfl
  · rename_i h1 h2; exact absurd h1 h2
  · rename_i h1 h2; exact absurd h2 h1
  · rfl

theorem arrayArg_withToks (ty : Bytes) (w : Nat) (s : PS) (l : List Tok) (t : Tok) :
    arrayArg ty w (s.withToks l) t = (arrayArg ty w s t).map (fun r => (r.1, r.2.withToks l)) := by
  unfold arrayArg
  simp only [varArg_withToks]
  cases s
  simp only [PS.withToks, PS.err]
  repeat' split
  all_goals first | rfl | simp

theorem arrayArgs_withToks (ty : Bytes) (w : Nat) (l : List Tok) : ∀ (ts : List Tok) (s : PS),
    arrayArgs ty w ts (s.withToks l) = ((arrayArgs ty w ts s).1, (arrayArgs ty w ts s).2.withToks l)
  | [], s => rfl
  | t :: r, s => by
    unfold arrayArgs
    split
    · rfl
    · rw [arrayArg_withToks]
      cases h : arrayArg ty w s t with
      | none => rfl
      | some p =>
        simp only [Option.map_some]
        rw [arrayArgs_withToks ty w l r p.2]
        cases arrayArgs ty w r p.2 with
        | mk o s2 => cases o <;> rfl

theorem asciiLoop_withToks (mn mx : Int) (n : Nat) (l : List Tok) : ∀ (ts : List Tok) (lit : Bytes) (s : PS),
    asciiLoop mn mx n ts lit (s.withToks l) = ((asciiLoop mn mx n ts lit s).1, (asciiLoop mn mx n ts lit s).2.withToks l)
  | [], lit, s => rfl
  | t :: r, lit, s => by
    unfold asciiLoop
    dsimp only
    repeat' split
    all_goals first
      | rfl
      | exact asciiLoop_withToks mn mx n l r _ _
      | (simp only [err_withToks]; exact asciiLoop_withToks mn mx n l r _ _)
      | (cases s; rfl)
      | (obtain ⟨toks, errs, warns, names, ell, skip⟩ := s
         simp only [PS.withToks, PS.err] at *
         simp_all)

theorem streamFunction_withToks (s : PS) (l : List Tok) (t : Tok) :
    streamFunction (s.withToks l) t = ((streamFunction s t).1, (streamFunction s t).2.1, (streamFunction s t).2.2.withToks l) := by
  rw [streamFunction_eq', streamFunction_eq']
  unfold clampSF'
  dsimp only
  cases s
  simp only [PS.withToks, PS.err]
  split <;> split <;> rfl

/-! ### the simulation: same state, the unread tokens `Q` replaced by `Q'` -/

def WSim (Q Q' : List Tok) (s s' : PS) : Prop := ∃ T, s.toks = T ++ Q ∧ s' = s.withToks (T ++ Q')

/-- same value, related states -/
def Loc2 {α} (Q Q' : List Tok) (r r' : α × PS) : Prop := r'.1 = r.1 ∧ WSim Q Q' r.2 r'.2

theorem WSim.refl_of {Q Q' : List Tok} (s : PS) (T : List Tok) (h : s.toks = T ++ Q) : WSim Q Q' s (s.withToks (T ++ Q')) :=
  ⟨T, h, rfl⟩

theorem WSim.nonempty {Q Q' : List Tok} {s s' : PS} (h : WSim Q Q' s s') (hl : Q.length < s.toks.length) :
    ∃ t T1, s.toks = t :: T1 ++ Q ∧ s' = s.withToks (t :: T1 ++ Q') := by
  obtain ⟨T, h1, h2⟩ := h
  cases T with
  | nil => simp [h1] at hl
  | cons t T1 => exact ⟨t, T1, by simpa using h1, by simpa using h2⟩

theorem WSim.peek {Q Q' : List Tok} {s s' : PS} (h : WSim Q Q' s s') (hl : Q.length < s.toks.length) : s'.peek = s.peek := by
  obtain ⟨t, T1, h1, h2⟩ := h.nonempty hl
  subst h2
  simp [PS.peek, h1]

theorem WSim.pop {Q Q' : List Tok} {s s' : PS} (h : WSim Q Q' s s') (hl : Q.length < s.toks.length) : WSim Q Q' s.pop s'.pop := by
  obtain ⟨t, T1, h1, h2⟩ := h.nonempty hl
  subst h2
  exact ⟨T1, by simp [PS.pop, h1], by simp [PS.pop, PS.withToks, h1]⟩

theorem WSim.map {Q Q' : List Tok} {s s' : PS} (h : WSim Q Q' s s') (f : PS → PS)
    (hf : ∀ (x : PS) (l : List Tok), f (x.withToks l) = (f x).withToks l) (ht : ∀ x : PS, (f x).toks = x.toks) :
    WSim Q Q' (f s) (f s') := by
  obtain ⟨T, h1, h2⟩ := h
  subst h2
  exact ⟨T, by rw [ht]; exact h1, by rw [hf]⟩

theorem WSim.err {Q Q' : List Tok} {s s' : PS} (h : WSim Q Q' s s') (t : Tok) (k : String) : WSim Q Q' (s.err t k) (s'.err t k) :=
  h.map (fun x => x.err t k) (fun _ _ => rfl) (fun _ => rfl)
theorem WSim.warn {Q Q' : List Tok} {s s' : PS} (h : WSim Q Q' s s') (t : Tok) (k : String) : WSim Q Q' (s.warn t k) (s'.warn t k) :=
  h.map (fun x => x.warn t k) (fun _ _ => rfl) (fun _ => rfl)
theorem WSim.addName {Q Q' : List Tok} {s s' : PS} (h : WSim Q Q' s s') (n : Name) : WSim Q Q' (s.addName n) (s'.addName n) :=
  h.map (fun x => x.addName n) (fun _ _ => rfl) (fun _ => rfl)
theorem WSim.bumpEll {Q Q' : List Tok} {s s' : PS} (h : WSim Q Q' s s') : WSim Q Q' s.bumpEll s'.bumpEll :=
  h.map (fun x => x.bumpEll) (fun _ _ => rfl) (fun _ => rfl)
theorem WSim.clearSkip {Q Q' : List Tok} {s s' : PS} (h : WSim Q Q' s s') : WSim Q Q' s.clearSkip s'.clearSkip :=
  h.map (fun x => x.clearSkip) (fun _ _ => rfl) (fun _ => rfl)
theorem WSim.resetScope {Q Q' : List Tok} {s s' : PS} (h : WSim Q Q' s s') : WSim Q Q' s.resetScope s'.resetScope :=
  h.map (fun x => x.resetScope) (fun _ _ => rfl) (fun _ => rfl)

theorem WSim.fields {Q Q' : List Tok} {s s' : PS} (h : WSim Q Q' s s') :
    s'.names = s.names ∧ s'.ell = s.ell ∧ s'.skipSize = s.skipSize ∧ s'.errs = s.errs ∧ s'.warns = s.warns := by
  obtain ⟨T, _, h2⟩ := h
  subst h2
  exact ⟨rfl, rfl, rfl, rfl, rfl⟩

/-- a function that never reads the tokens carries the simulation along -/
theorem WSim.through {α} {Q Q' : List Tok} {s s' : PS} (h : WSim Q Q' s s') (f : PS → α × PS)
    (hf : ∀ (x : PS) (l : List Tok), f (x.withToks l) = ((f x).1, (f x).2.withToks l)) (ht : ∀ x : PS, (f x).2.toks = x.toks) :
    Loc2 Q Q' (f s) (f s') := by
  obtain ⟨T, h1, h2⟩ := h
  subst h2
  rw [hf]
  exact ⟨rfl, T, by rw [ht]; exact h1, rfl⟩

/-! ### the token-reading functions -/

theorem valueTokens_loc (Q Q' : List Tok) : ∀ (fuel : Nat) (s s' : PS), WSim Q Q' s s' →
    Q.length < (valueTokens fuel s).2.toks.length → Loc2 Q Q' (valueTokens fuel s) (valueTokens fuel s')
  | 0, s, s', h, _ => ⟨rfl, h⟩
  | fuel + 1, s, s', h, hr => by
    have hl : Q.length < s.toks.length := Nat.lt_of_lt_of_le hr (valueTokens_suf _ s).length_le
    have hp := h.peek hl
    unfold valueTokens at hr ⊢
    simp only [hp] at hr ⊢
    split
    all_goals first
      | exact ⟨rfl, h⟩
      | exact ⟨rfl, h.pop hl⟩
      | (rename_i hk
         simp only [hk] at hr
         have ih := valueTokens_loc Q Q' fuel s.pop s'.pop (h.pop hl) hr
         exact ⟨by simp [ih.1], ih.2⟩)

theorem sizeDecl_loc (Q Q' : List Tok) (s s' : PS) (h : WSim Q Q' s s')
    (hr : Q.length < (sizeDecl s).2.2.2.toks.length) :
    (sizeDecl s').1 = (sizeDecl s).1 ∧ (sizeDecl s').2.1 = (sizeDecl s).2.1 ∧ (sizeDecl s').2.2.1 = (sizeDecl s).2.2.1 ∧
      WSim Q Q' (sizeDecl s).2.2.2 (sizeDecl s').2.2.2 := by
  have hl : Q.length < s.toks.length := Nat.lt_of_lt_of_le hr (sizeDecl_suf s).length_le
  have hp := h.peek hl
  unfold sizeDecl
  dsimp only
  rw [hp]
  split
  · exact ⟨rfl, rfl, rfl, h.pop hl⟩
  · exact ⟨rfl, rfl, rfl, h⟩

/-- the value tokens of an item, whatever fuel above the number of tokens is used -/
theorem valueTokens_loc' (Q Q' : List Tok) (s s' : PS) (h : WSim Q Q' s s')
    (hr : Q.length < (valueTokens (s.toks.length + 1) s).2.toks.length) :
    Loc2 Q Q' (valueTokens (s.toks.length + 1) s) (valueTokens (s'.toks.length + 1) s') := by
  let F := max s.toks.length s'.toks.length + 1
  have e1 : valueTokens (s.toks.length + 1) s = valueTokens F s :=
    valueTokens_fuel _ _ s (by omega) (by simp only [F]; omega)
  have e2 : valueTokens (s'.toks.length + 1) s' = valueTokens F s' :=
    valueTokens_fuel _ _ s' (by omega) (by simp only [F]; omega)
  rw [e1] at hr ⊢
  rw [e2]
  exact valueTokens_loc Q Q' F s s' h hr

theorem asciiItem_loc (Q Q' : List Tok) (lo hi : Int) (s s' : PS) (h : WSim Q Q' s s')
    (hr : Q.length < (asciiItem lo hi s).2.toks.length) : Loc2 Q Q' (asciiItem lo hi s) (asciiItem lo hi s') := by
  unfold asciiItem at hr ⊢
  dsimp only at hr ⊢
  rw [asciiLoop_toks] at hr
  obtain ⟨hv, hw⟩ := valueTokens_loc' Q Q' s s' h hr
  rw [hv]
  exact hw.through (fun x => asciiLoop lo hi _ _ [] x) (fun x l => asciiLoop_withToks lo hi _ l _ [] x)
    (fun x => asciiLoop_toks lo hi _ _ [] x)

theorem arrayItem_loc (Q Q' : List Tok) (ty : Bytes) (s s' : PS) (h : WSim Q Q' s s')
    (hr : Q.length < (arrayItem ty s).2.toks.length) : Loc2 Q Q' (arrayItem ty s) (arrayItem ty s') := by
  have hr' : Q.length < (valueTokens (s.toks.length + 1) s).2.toks.length := by
    have : (arrayItem ty s).2.toks = (valueTokens (s.toks.length + 1) s).2.toks := by
      unfold arrayItem
      dsimp only
      have ha := arrayArgs_toks ty (widthOfType ty) (valueTokens (s.toks.length + 1) s).1 (valueTokens (s.toks.length + 1) s).2
      cases h2 : arrayArgs ty (widthOfType ty) (valueTokens (s.toks.length + 1) s).1 (valueTokens (s.toks.length + 1) s).2 with
      | mk o s2 =>
        rw [h2] at ha
        cases o <;> exact ha
    rw [this] at hr; exact hr
  obtain ⟨hv, hw⟩ := valueTokens_loc' Q Q' s s' h hr'
  have ha := hw.through (fun x => arrayArgs ty (widthOfType ty) (valueTokens (s.toks.length + 1) s).1 x)
    (fun x l => arrayArgs_withToks ty (widthOfType ty) l _ x) (fun x => arrayArgs_toks ty (widthOfType ty) _ x)
  unfold arrayItem
  dsimp only
  rw [hv]
  obtain ⟨ha1, ha2⟩ := ha
  cases h1 : arrayArgs ty (widthOfType ty) (valueTokens (s.toks.length + 1) s).1 (valueTokens (s.toks.length + 1) s).2 with
  | mk o s2 =>
    cases h2 : arrayArgs ty (widthOfType ty) (valueTokens (s.toks.length + 1) s).1 (valueTokens (s'.toks.length + 1) s').2 with
    | mk o' s2' =>
      rw [h1, h2] at ha1 ha2
      dsimp only at ha1 ha2
      subst ha1
      cases o' <;> exact ⟨rfl, ha2⟩

theorem closeTail_loc (Q Q' : List Tok) (item : Tmpl) (s s' : PS) (h : WSim Q Q' s s')
    (hr : Q.length < (closeTail item s).2.toks.length) : Loc2 Q Q' (closeTail item s) (closeTail item s') := by
  have hl : Q.length < s.clearSkip.toks.length := Nat.lt_of_lt_of_le hr (closeTail_suf item s).length_le
  have hc := h.clearSkip
  have hp := hc.peek hl
  unfold closeTail
  dsimp only
  rw [hp]
  split
  · exact ⟨rfl, hc.err _ _⟩
  · exact ⟨rfl, hc.pop hl⟩

theorem closeItem_loc (Q Q' : List Tok) (sizeTok : Tok) (lo hi : Int) (res : R Tmpl) (s s' : PS) (h : WSim Q Q' s s')
    (hr : Q.length < (closeItem sizeTok lo hi res s).2.toks.length) :
    Loc2 Q Q' (closeItem sizeTok lo hi res s) (closeItem sizeTok lo hi res s') := by
  unfold closeItem at hr ⊢
  cases res with
  | stop => exact ⟨rfl, h⟩
  | panic => exact ⟨rfl, h⟩
  | ok item =>
    dsimp only at hr ⊢
    rw [h.fields.2.2.1]
    split
    · rename_i hc
      rw [if_pos hc] at hr
      exact closeTail_loc Q Q' item _ _ (h.err _ _) hr
    · rename_i hc
      rw [if_neg hc] at hr
      exact closeTail_loc Q Q' item _ _ h hr

theorem recoverItem_loc (Q Q' : List Tok) (lab : Tok) (b b' : R Tmpl × PS) (h : Loc2 Q Q' b b') :
    Loc2 Q Q' (recoverItem lab b) (recoverItem lab b') := by
  obtain ⟨r, s⟩ := b
  obtain ⟨r', s'⟩ := b'
  obtain ⟨h1, h2⟩ := h
  dsimp only at h1 h2
  subst h1
  unfold recoverItem
  cases r' with
  | panic => exact ⟨rfl, (h2.err _ _).warn _ _⟩
  | stop => exact ⟨rfl, h2⟩
  | ok t => exact ⟨rfl, h2⟩

theorem itemBody_loc (Q Q' : List Tok) (ll : PS → R Tmpl × PS) (hsuf : ∀ x, (ll x).2.toks <:+ x.toks)
    (hll : ∀ x x', WSim Q Q' x x' → Q.length < (ll x).2.toks.length → Loc2 Q Q' (ll x) (ll x'))
    (s s' : PS) (h : WSim Q Q' s s') (hr : Q.length < (itemBody ll s).2.toks.length) :
    Loc2 Q Q' (itemBody ll s) (itemBody ll s') := by
  have hl : Q.length < s.toks.length := Nat.lt_of_lt_of_le hr (itemBody_suf ll hsuf s).length_le
  have hp := h.peek hl
  have h1 := h.pop hl
  unfold itemBody at hr ⊢
  dsimp only at hr ⊢
  rw [hp]
  by_cases hty : (s.peek.kind != Kind.itemType) = true
  · simp only [if_pos hty]
    exact ⟨rfl, h.err _ _⟩
  · simp only [if_neg hty] at hr ⊢
    by_cases hpk : (s.pop.peek.kind != Kind.itemSize && s.pop.peek.kind == Kind.error) = true
    · simp only [if_pos hpk] at hr
      have hl1 : Q.length < s.pop.toks.length := hr
      rw [h1.peek hl1]
      simp only [if_pos hpk]
      exact ⟨rfl, h1.err _ _⟩
    · simp only [if_neg hpk] at hr
      -- everything that follows is a suffix of the state after the size declaration
      have hsd : Q.length < (sizeDecl s.pop).2.2.2.toks.length := by
        refine Nat.lt_of_lt_of_le hr (List.IsSuffix.length_le ?_)
        refine List.IsSuffix.trans (closeItem_suf _ _ _ _ _) ?_
        split
        · exact hsuf _
        · split
          · exact asciiItem_suf _ _ _
          · exact arrayItem_suf _ _
      have hl1 : Q.length < s.pop.toks.length := Nat.lt_of_lt_of_le hsd (sizeDecl_suf s.pop).length_le
      rw [h1.peek hl1]
      simp only [if_neg hpk]
      obtain ⟨d1, d2, d3, dw⟩ := sizeDecl_loc Q Q' s.pop s'.pop h1 hsd
      rw [d1, d2, d3]
      -- the values
      have hvals : Loc2 Q Q'
          (if s.peek.val == [76] then ll (sizeDecl s.pop).2.2.2
            else if s.peek.val == [65] then asciiItem (sizeDecl s.pop).2.1 (sizeDecl s.pop).2.2.1 (sizeDecl s.pop).2.2.2
            else arrayItem s.peek.val (sizeDecl s.pop).2.2.2)
          (if s.peek.val == [76] then ll (sizeDecl s'.pop).2.2.2
            else if s.peek.val == [65] then asciiItem (sizeDecl s.pop).2.1 (sizeDecl s.pop).2.2.1 (sizeDecl s'.pop).2.2.2
            else arrayItem s.peek.val (sizeDecl s'.pop).2.2.2) := by
        have hcl := fun (r : R Tmpl × PS) (hh : (closeItem (sizeDecl s.pop).1 (sizeDecl s.pop).2.1 (sizeDecl s.pop).2.2.1 r.1 r.2).2.toks.length > Q.length) =>
          Nat.lt_of_lt_of_le hh (closeItem_suf _ _ _ r.1 r.2).length_le
        split
        · rename_i hL
          rw [if_pos hL] at hr
          exact hll _ _ dw (hcl _ hr)
        · rename_i hL
          rw [if_neg hL] at hr
          split
          · rename_i hA
            rw [if_pos hA] at hr
            exact asciiItem_loc Q Q' _ _ _ _ dw (hcl _ hr)
          · rename_i hA
            rw [if_neg hA] at hr
            exact arrayItem_loc Q Q' _ _ _ dw (hcl _ hr)
      obtain ⟨hv1, hv2⟩ := hvals
      rw [hv1]
      exact closeItem_loc Q Q' _ _ _ _ _ _ hv2 hr

theorem parseItem_loc (Q Q' : List Tok) : ∀ fuel : Nat,
    (∀ s s' : PS, WSim Q Q' s s' → Q.length < (parseItemF fuel s).2.toks.length →
      Loc2 Q Q' (parseItemF fuel s) (parseItemF fuel s')) ∧
    (∀ (c : Nat) (acc : List GoVal) (s s' : PS), WSim Q Q' s s' →
      Q.length < (parseItemF.listLoop fuel c acc s).2.toks.length →
      Loc2 Q Q' (parseItemF.listLoop fuel c acc s) (parseItemF.listLoop fuel c acc s'))
  | 0 => ⟨fun s s' h _ => ⟨rfl, h⟩, fun c acc s s' h _ => ⟨rfl, h⟩⟩
  | fuel + 1 => by
    have ih := parseItem_loc Q Q' fuel
    have hsuf := parseItem_suf fuel
    constructor
    · intro s s' h hr
      have hl : Q.length < s.toks.length := Nat.lt_of_lt_of_le hr ((parseItem_suf (fuel + 1)).1 s).length_le
      have hp := h.peek hl
      unfold parseItemF at hr ⊢
      dsimp only at hr ⊢
      rw [hp]
      by_cases hlab : (s.peek.kind != Kind.lab) = true
      · simp only [if_pos hlab]
        exact ⟨rfl, h.err _ _⟩
      · simp only [if_neg hlab] at hr ⊢
        rw [recoverItem_toks] at hr
        exact recoverItem_loc Q Q' _ _ _
          (itemBody_loc Q Q' _ (hsuf.2 0 []) (ih.2 0 []) s.pop s'.pop (h.pop hl) hr)
    · intro c acc s s' h hr
      have hl : Q.length < s.toks.length := Nat.lt_of_lt_of_le hr ((parseItem_suf (fuel + 1)).2 c acc s).length_le
      have hp := h.peek hl
      have hf := h.fields
      unfold parseItemF.listLoop at hr ⊢
      dsimp only at hr ⊢
      rw [hp]
      split
      · -- a child item
        rename_i hk
        simp only [hk] at hr
        cases hc : parseItemF fuel s with
        | mk r s1 =>
          rw [hc] at hr
          have hr1 : Q.length < s1.toks.length := by
            cases r with
            | ok child => exact Nat.lt_of_lt_of_le hr (hsuf.2 _ _ s1).length_le
            | stop => exact hr
            | panic => exact hr
          have := ih.1 s s' h (by rw [hc]; exact hr1)
          rw [hc] at this
          obtain ⟨e1, e2⟩ := this
          cases hc' : parseItemF fuel s' with
          | mk r' s1' =>
            rw [hc'] at e1 e2
            dsimp only at e1 e2
            subst e1
            cases r' with
            | ok child => exact ih.2 _ _ s1 s1' e2 hr
            | stop => exact ⟨rfl, e2⟩
            | panic => exact ⟨rfl, e2⟩
      · -- a variable
        rename_i hk
        simp only [hk] at hr
        have h1 := h.pop hl
        have hn : s'.pop.names = s.pop.names := h1.fields.1
        rw [hn]
        split
        · rename_i hd
          simp only [if_pos hd] at hr
          exact ih.2 _ _ _ _ (h1.err _ _) hr
        · rename_i hd
          simp only [if_neg hd] at hr
          exact ih.2 _ _ _ _ (h1.addName _) hr
      · -- an ellipsis
        rename_i hk
        simp only [hk] at hr
        have h1 := h.pop hl
        have he : s'.pop.ell = s.pop.ell := h1.fields.2.1
        split
        · exact ⟨rfl, h1.err _ _⟩
        · rename_i hc0
          simp only [if_neg hc0] at hr
          rw [he]
          split
          · rename_i hw
            simp only [if_pos hw] at hr
            exact ih.2 _ _ _ _ (h1.bumpEll.warn _ _) hr
          · rename_i hw
            simp only [if_neg hw] at hr
            exact ih.2 _ _ _ _ h1.bumpEll hr
      · exact ⟨rfl, h⟩
      · exact ⟨rfl, h.err _ _⟩
      · exact ⟨rfl, h.err _ _⟩

/-! ### the message level -/

theorem waitBitOf_loc (Q Q' : List Tok) (fn : Int) (s s' : PS) (h : WSim Q Q' s s')
    (hr : Q.length < (waitBitOf fn s).2.toks.length) : Loc2 Q Q' (waitBitOf fn s) (waitBitOf fn s') := by
  have hl : Q.length < s.toks.length := Nat.lt_of_lt_of_le hr (waitBitOf_suf fn s).length_le
  have hp := h.peek hl
  unfold waitBitOf
  dsimp only
  rw [hp]
  repeat' split
  all_goals first
    | exact ⟨rfl, h⟩
    | exact ⟨rfl, h.pop hl⟩
    | exact ⟨rfl, (h.pop hl).err _ _⟩

theorem directionOf_loc (Q Q' : List Tok) (s s' : PS) (h : WSim Q Q' s s')
    (hr : Q.length < (directionOf s).2.toks.length) : Loc2 Q Q' (directionOf s) (directionOf s') := by
  have hl : Q.length < s.toks.length := Nat.lt_of_lt_of_le hr (directionOf_suf s).length_le
  have hp := h.peek hl
  unfold directionOf
  dsimp only
  rw [hp]
  split
  · exact ⟨rfl, h.pop hl⟩
  · exact ⟨rfl, h.warn _ _⟩

theorem nameOf_loc (Q Q' : List Tok) (s s' : PS) (h : WSim Q Q' s s')
    (hr : Q.length < (nameOf s).2.toks.length) : Loc2 Q Q' (nameOf s) (nameOf s') := by
  have hl : Q.length < s.toks.length := Nat.lt_of_lt_of_le hr (nameOf_suf s).length_le
  have hp := h.peek hl
  unfold nameOf
  dsimp only
  rw [hp]
  split
  · exact ⟨rfl, h.pop hl⟩
  · exact ⟨rfl, h⟩

theorem msgItem_loc (Q Q' : List Tok) (s s' : PS) (h : WSim Q Q' s s')
    (hr : Q.length < (msgItem s).2.toks.length) : Loc2 Q Q' (msgItem s) (msgItem s') := by
  have hl : Q.length < s.toks.length := Nat.lt_of_lt_of_le hr (msgItem_suf s).length_le
  have hp := h.peek hl
  unfold msgItem at hr ⊢
  dsimp only at hr ⊢
  rw [hp]
  by_cases h1 : (s.peek.kind == Kind.msgEnd) = true
  · simp only [if_pos h1]
    exact ⟨rfl, h⟩
  · simp only [if_neg h1] at hr ⊢
    by_cases h2 : (s.peek.kind == Kind.lab) = true
    · simp only [if_pos h2] at hr ⊢
      let F := max s.toks.length s'.toks.length + 1
      have e1 : parseItemF (s.toks.length + 1) s = parseItemF F s :=
        (parseItem_fuel _ _).1 s (by omega) (by simp only [F]; omega)
      have e2 : parseItemF (s'.toks.length + 1) s' = parseItemF F s' :=
        (parseItem_fuel _ _).1 s' (by omega) (by simp only [F]; omega)
      rw [e1] at hr ⊢
      rw [e2]
      exact (parseItem_loc Q Q' F).1 s s' h hr
    · simp only [if_neg h2]
      exact ⟨rfl, h.err _ _⟩

/-- the terminator: it only needs to be among the tokens that are kept -/
theorem finishMsg_loc (Q Q' : List Tok) (name : Bytes) (st fn wb : Int) (dir : Bytes) (item : R Tmpl) (s s' : PS)
    (h : WSim Q Q' s s') (hl : Q.length < s.toks.length) :
    Loc2 Q Q' (finishMsg name st fn wb dir item s) (finishMsg name st fn wb dir item s') := by
  have hp := h.peek hl
  unfold finishMsg
  cases item with
  | stop => exact ⟨rfl, h⟩
  | panic => exact ⟨rfl, h⟩
  | ok it =>
    dsimp only
    rw [hp]
    split
    · exact ⟨rfl, h.err _ _⟩
    · split
      · exact ⟨rfl, h.pop hl⟩
      · exact ⟨rfl, h.pop hl⟩

/-- the state in which `parseMessage` looks for the terminator -/
def preFinish (s : PS) : PS :=
  let s0 := s.resetScope
  let sf := streamFunction s0.pop s0.peek
  let wb := waitBitOf sf.2.1 sf.2.2
  let dir := directionOf wb.2
  let nm := nameOf dir.2
  (msgItem nm.2).2

theorem preFinish_suf (s : PS) : (preFinish s).toks <:+ s.pop.toks := by
  unfold preFinish
  dsimp only
  refine List.IsSuffix.trans (msgItem_suf _) ?_
  refine List.IsSuffix.trans (nameOf_suf _) ?_
  refine List.IsSuffix.trans (directionOf_suf _) ?_
  refine List.IsSuffix.trans (waitBitOf_suf _ _) ?_
  rw [streamFunction_toks]
  exact List.suffix_refl _

/-- **One message is parsed the same whatever follows it**: if the terminator is looked for among
the tokens that are kept (`preFinish` still has more than `Q` left), the message, the diagnostics
and the consumed tokens do not depend on `Q`. -/
theorem parseMessage_loc (Q Q' : List Tok) (s s' : PS) (h : WSim Q Q' s s')
    (hr : Q.length < (preFinish s).toks.length) : Loc2 Q Q' (parseMessage s) (parseMessage s') := by
  have hl0 : Q.length < s.pop.toks.length := Nat.lt_of_lt_of_le hr (preFinish_suf s).length_le
  have hl : Q.length < s.toks.length := Nat.lt_of_lt_of_le hl0 (suf_pop s).length_le
  have h0 := h.resetScope
  have hp : s'.resetScope.peek = s.resetScope.peek := h0.peek hl
  unfold preFinish at hr
  dsimp only at hr
  unfold parseMessage
  dsimp only
  rw [hp]
  split
  · exact ⟨rfl, h0.err _ _⟩
  · -- stream/function token: the rest is a chain of local steps
    have h1 : WSim Q Q' s.resetScope.pop s'.resetScope.pop := h0.pop hl
    have hsf := h1.through (fun x => let r := streamFunction x s.resetScope.peek; ((r.1, r.2.1), r.2.2))
      (fun x l => by simp only [streamFunction_withToks]) (fun x => streamFunction_toks x _)
    obtain ⟨e1, w1⟩ := hsf
    dsimp only at e1 w1
    obtain ⟨e1a, e1b⟩ := Prod.mk.inj e1
    rw [e1a, e1b]
    have c4 := (msgItem_suf (nameOf (directionOf (waitBitOf (streamFunction s.resetScope.pop s.resetScope.peek).2.1
      (streamFunction s.resetScope.pop s.resetScope.peek).2.2).2).2).2).length_le
    have c3 := (nameOf_suf (directionOf (waitBitOf (streamFunction s.resetScope.pop s.resetScope.peek).2.1
      (streamFunction s.resetScope.pop s.resetScope.peek).2.2).2).2).length_le
    have c2 := (directionOf_suf (waitBitOf (streamFunction s.resetScope.pop s.resetScope.peek).2.1
      (streamFunction s.resetScope.pop s.resetScope.peek).2.2).2).length_le
    obtain ⟨e2, w2⟩ := waitBitOf_loc Q Q' (streamFunction s.resetScope.pop s.resetScope.peek).2.1 _ _ w1 (by omega)
    rw [e2]
    obtain ⟨e3, w3⟩ := directionOf_loc Q Q' _ _ w2 (by omega)
    rw [e3]
    obtain ⟨e4, w4⟩ := nameOf_loc Q Q' _ _ w3 (by omega)
    rw [e4]
    obtain ⟨e5, w5⟩ := msgItem_loc Q Q' _ _ w4 hr
    rw [e5]
    exact finishMsg_loc Q Q' _ _ _ _ _ _ _ _ w5 hr

end Sml
end Secs
