/-
What an accepted token stream looks like at its end: the message loop, when it reports no error,
has consumed a prefix of the stream that is empty or ends with a message terminator, and stopped
in front of an end-of-input token (or at the end of the list).
-/
import SecsModel.Proofs.ParserConcat
namespace Secs
namespace Sml
open Lex

/-- the last element of a non-empty list has the property -/
def EndsWith (p : Tok → Prop) (l : List Tok) : Prop := l = [] ∨ ∃ pre d, l = pre ++ [d] ∧ p d

theorem EndsWith.append_of_right {p : Tok → Prop} (a : List Tok) {l : List Tok} (h : EndsWith p l) (hl : l ≠ []) :
    EndsWith p (a ++ l) := by
  rcases h with h | ⟨pre, d, rfl, hd⟩
  · exact absurd h hl
  · exact Or.inr ⟨a ++ pre, d, by simp, hd⟩

theorem parseLoop_consumed : ∀ (fuel : Nat) (s : PS) (acc : List Msg) (ms : List Msg) (sEnd : PS),
    s.toks.length < fuel → parseLoop fuel s acc = some (ms, sEnd) → sEnd.errs = [] →
    ∃ consumed, s.toks = consumed ++ sEnd.toks ∧ EndsWith (fun d => d.kind = .msgEnd) consumed ∧ sEnd.peek.kind = .eof
  | 0, s, _, _, _, hf, _, _ => by omega
  | fuel + 1, s, acc, ms, sEnd, hf, h, he => by
    unfold parseLoop at h
    split at h
    · rename_i hk
      injection h with h; injection h with _ h2
      subst h2
      exact ⟨[], rfl, Or.inl rfl, kind_of_beq _ _ hk⟩
    · rename_i hk
      have hc := parseMessage_consumes s
      have hn := parseMessage_none_err s
      cases hm : parseMessage s with
      | mk o s1 =>
        rw [hm] at h hc hn
        cases o with
        | none =>
          injection h with h; injection h with _ h2
          subst h2
          exact absurd he (hn rfl)
        | some om =>
          cases om with
          | none => cases h
          | some m =>
            obtain ⟨hkind, hs1⟩ := parseMessage_success s m s1 hm
            have hsuf : (preFinish s).toks <:+ s.toks := List.IsSuffix.trans (preFinish_suf s) (suf_pop s)
            obtain ⟨pre, hpre⟩ := hsuf
            have hne : (preFinish s).toks ≠ [] := toks_ne_nil_of_kind _ .msgEnd (by decide) hkind
            cases hpt : (preFinish s).toks with
            | nil => exact absurd hpt hne
            | cons d rest =>
              have hd : d.kind = .msgEnd := by
                have : (preFinish s).peek = d := by simp [PS.peek, hpt]
                rw [← this]; exact hkind
              have hs1t : s1.toks = rest := by rw [hs1]; simp [PS.pop, hpt]
              have hcons : s1.toks.length < s.toks.length := hc (by simp)
              obtain ⟨c', e1, e2, e3⟩ := parseLoop_consumed fuel s1 (m :: acc) ms sEnd (by omega) h he
              refine ⟨pre ++ [d] ++ c', ?_, ?_, e3⟩
              · rw [← hpre, hpt, ← hs1t, e1]; simp
              · by_cases hc' : c' = []
                · subst hc'
                  exact Or.inr ⟨pre, d, by simp, hd⟩
                · exact e2.append_of_right _ hc'

/-- an accepted stream that holds no end-of-input token is empty or ends with a terminator -/
theorem accepted_ends_msgEnd (T : List Tok) (hT : ∀ t ∈ T, t.kind ≠ .eof) (ms : List Msg) (w : List Diag)
    (h : parseToks T = .done ms [] w) : EndsWith (fun d => d.kind = .msgEnd) T := by
  unfold parseToks at h
  cases hrun : parseLoop (T.length + 1) { toks := T } [] with
  | none => rw [hrun] at h; cases h
  | some r =>
    obtain ⟨ms', sEnd⟩ := r
    rw [hrun] at h
    dsimp only at h
    have herr : sEnd.errs = [] := by
      cases hE : sEnd.errs with
      | nil => rfl
      | cons x xs => simp [hE] at h
    obtain ⟨c, e1, e2, e3⟩ := parseLoop_consumed _ _ _ _ _ (by simp) hrun herr
    simp only at e1
    cases hst : sEnd.toks with
    | nil => rw [hst] at e1; simp at e1; rw [e1]; exact e2
    | cons t rest =>
      exfalso
      have : sEnd.peek = t := by simp [PS.peek, hst]
      rw [this] at e3
      exact hT t (by rw [e1, hst]; simp) e3

/-- the same for a stream closed by an end-of-input token -/
theorem accepted_ends_msgEnd_eof (A : List Tok) (e : Tok) (he : e.kind = .eof) (hA : ∀ t ∈ A, t.kind ≠ .eof)
    (ms : List Msg) (w : List Diag) (h : parseToks (A ++ [e]) = .done ms [] w) :
    EndsWith (fun d => d.kind = .msgEnd) A := by
  unfold parseToks at h
  cases hrun : parseLoop ((A ++ [e]).length + 1) { toks := A ++ [e] } [] with
  | none => rw [hrun] at h; cases h
  | some r =>
    obtain ⟨ms', sEnd⟩ := r
    rw [hrun] at h
    dsimp only at h
    have herr : sEnd.errs = [] := by
      cases hE : sEnd.errs with
      | nil => rfl
      | cons x xs => simp [hE] at h
    obtain ⟨c, e1, e2, e3⟩ := parseLoop_consumed _ _ _ _ _ (by simp) hrun herr
    simp only at e1
    cases hst : sEnd.toks with
    | nil =>
      exfalso
      rw [hst] at e1
      simp at e1
      rcases e2 with e2 | ⟨pre, d, e2, hd⟩
      · rw [e2] at e1; simp at e1
      · rw [e2] at e1
        have := List.append_inj' e1 rfl
        simp at this
        rw [this.2, hd] at he
        cases he
    | cons t rest =>
      have hpk : sEnd.peek = t := by simp [PS.peek, hst]
      rw [hpk] at e3
      rw [hst] at e1
      -- t is the end-of-input token e, rest is empty
      have hmem : t ∈ A ++ [e] := by rw [e1]; simp
      rcases List.mem_append.mp hmem with hm | hm
      · exact absurd e3 (hA t hm)
      · have hte : t = e := by simpa using hm
        subst hte
        -- A ++ [t] = c ++ t :: rest, and rest has no room
        have hrest : rest = [] := by
          by_cases hr : rest = []
          · exact hr
          · exfalso
            obtain ⟨r0, rl, hrl⟩ : ∃ r0 rl, rest = r0 ++ [rl] := ⟨rest.dropLast, rest.getLast hr, (List.dropLast_concat_getLast hr).symm⟩
            rw [hrl, show c ++ t :: (r0 ++ [rl]) = (c ++ t :: r0) ++ [rl] by simp] at e1
            have := List.append_inj' e1 rfl
            have h1 := this.1
            have : t ∈ A := by rw [h1]; simp
            exact hA t this e3
        subst hrest
        have := List.append_inj' e1 rfl
        rw [this.1]; exact e2

end Sml
end Secs
