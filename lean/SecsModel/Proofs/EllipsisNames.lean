/-
Generated variable names are unique: suffixing a base name that contains no `[` with the index
groups of a copy-index stack is injective in (base name, stack), and the renumbered ellipsis
names `...[k]` are injective in k. So distinct (variable, copy) pairs never collide.
-/
import SecsModel.Model.Fill
import SecsModel.Proofs.Decimal
namespace Secs

/-- a base name without an index group of its own -/
def plainName (n : Name) : Bool := n.all (· != 91)

theorem decDigits_inj (a b : Nat) (h : decDigits a = decDigits b) : a = b := by
  have ha := (decDigits_spec a).2
  have hb := (decDigits_spec b).2
  rw [h] at ha
  exact ha.symm.trans hb

theorem decDigits_no93 (a : Nat) : ∀ c ∈ decDigits a, c ≠ 93 := by
  intro c hc
  have := (decDigits_spec a).1 c hc
  omega

/-- splitting a digit string from what follows its closing bracket -/
theorem digits_bracket_split (d1 d2 r1 r2 : Bytes) (h1 : ∀ c ∈ d1, c ≠ 93) (h2 : ∀ c ∈ d2, c ≠ 93)
    (h : d1 ++ 93 :: r1 = d2 ++ 93 :: r2) : d1 = d2 ∧ r1 = r2 := by
  induction d1 generalizing d2 with
  | nil =>
    cases d2 with
    | nil => simp at h; exact ⟨rfl, h⟩
    | cons y ys =>
      simp only [List.nil_append, List.cons_append, List.cons.injEq] at h
      exact absurd h.1.symm (h2 y (by simp))
  | cons x xs ih =>
    cases d2 with
    | nil =>
      simp only [List.nil_append, List.cons_append, List.cons.injEq] at h
      exact absurd h.1 (h1 x (by simp))
    | cons y ys =>
      simp only [List.cons_append, List.cons.injEq] at h
      obtain ⟨hx, hr⟩ := ih ys (fun c hc => h1 c (by simp [hc])) (fun c hc => h2 c (by simp [hc])) h.2
      exact ⟨by rw [h.1, hx], hr⟩

theorem idxSuffix_cons (i : Nat) (s : List Nat) :
    idxSuffix (i :: s) = 91 :: (decDigits i ++ 93 :: idxSuffix s) := by
  simp [idxSuffix]

theorem idxSuffix_inj : ∀ (s1 s2 : List Nat), idxSuffix s1 = idxSuffix s2 → s1 = s2
  | [], [], _ => rfl
  | [], j :: s2, h => by rw [idxSuffix_cons] at h; simp [idxSuffix] at h
  | i :: s1, [], h => by rw [idxSuffix_cons] at h; simp [idxSuffix] at h
  | i :: s1, j :: s2, h => by
    rw [idxSuffix_cons, idxSuffix_cons] at h
    simp only [List.cons.injEq, true_and] at h
    obtain ⟨hd, hr⟩ := digits_bracket_split _ _ _ _ (decDigits_no93 i) (decDigits_no93 j) h
    rw [decDigits_inj i j hd, idxSuffix_inj s1 s2 hr]

/-- an index suffix is empty or starts with `[` -/
theorem idxSuffix_head (s : List Nat) : idxSuffix s = [] ∨ ∃ r, idxSuffix s = 91 :: r := by
  cases s with
  | nil => left; rfl
  | cons i r => right; exact ⟨_, idxSuffix_cons i r⟩

theorem plain_split (n1 n2 t1 t2 : Bytes) (h1 : plainName n1 = true) (h2 : plainName n2 = true)
    (ht1 : t1 = [] ∨ ∃ r, t1 = 91 :: r) (ht2 : t2 = [] ∨ ∃ r, t2 = 91 :: r)
    (h : n1 ++ t1 = n2 ++ t2) : n1 = n2 ∧ t1 = t2 := by
  induction n1 generalizing n2 with
  | nil =>
    cases n2 with
    | nil => exact ⟨rfl, by simpa using h⟩
    | cons y ys =>
      exfalso
      simp only [plainName, List.all_cons, Bool.and_eq_true, bne_iff_ne, ne_eq] at h2
      simp only [List.nil_append, List.cons_append] at h
      rcases ht1 with rfl | ⟨r, rfl⟩
      · cases h
      · injection h with hh _; exact h2.1 hh.symm
  | cons x xs ih =>
    simp only [plainName, List.all_cons, Bool.and_eq_true, bne_iff_ne, ne_eq] at h1
    cases n2 with
    | nil =>
      exfalso
      simp only [List.nil_append, List.cons_append] at h
      rcases ht2 with rfl | ⟨r, rfl⟩
      · cases h
      · injection h with hh _; exact h1.1 hh
    | cons y ys =>
      simp only [plainName, List.all_cons, Bool.and_eq_true, bne_iff_ne, ne_eq] at h2
      simp only [List.cons_append, List.cons.injEq] at h
      obtain ⟨a, b⟩ := ih ys (by simpa [plainName] using h1.2) (by simpa [plainName] using h2.2) h.2
      exact ⟨by rw [h.1, a], b⟩

/-- **Suffixing is injective**: two generated names coincide only if the base names and the
copy-index stacks coincide. -/
theorem suffixed_inj (n1 n2 : Name) (s1 s2 : List Nat) (h1 : plainName n1 = true) (h2 : plainName n2 = true)
    (h : n1 ++ idxSuffix s1 = n2 ++ idxSuffix s2) : n1 = n2 ∧ s1 = s2 := by
  obtain ⟨a, b⟩ := plain_split n1 n2 _ _ h1 h2 (idxSuffix_head s1) (idxSuffix_head s2) h
  exact ⟨a, idxSuffix_inj s1 s2 b⟩

/-- distinct (base name, index stack) pairs give distinct generated names -/
theorem generated_nodup (pairs : List (Name × List Nat)) (hp : ∀ p ∈ pairs, plainName p.1 = true)
    (hn : pairs.Nodup) : (pairs.map (fun p => p.1 ++ idxSuffix p.2)).Nodup := by
  induction pairs with
  | nil => simp
  | cons p r ih =>
    rw [List.nodup_cons] at hn
    rw [List.map_cons, List.nodup_cons]
    refine ⟨?_, ih (fun q hq => hp q (by simp [hq])) hn.2⟩
    intro hmem
    rw [List.mem_map] at hmem
    obtain ⟨q, hq, heq⟩ := hmem
    obtain ⟨a, b⟩ := suffixed_inj q.1 p.1 q.2 p.2 (hp q (by simp [hq])) (hp p (by simp)) heq
    have : q = p := by cases q; cases p; simp_all
    exact hn.1 (this ▸ hq)

theorem nodup_map_inj {α β} (f : α → β) (hf : ∀ a b, f a = f b → a = b) (l : List α) (h : l.Nodup) : (l.map f).Nodup := by
  induction l with
  | nil => simp
  | cons x r ih =>
    rw [List.nodup_cons] at h
    rw [List.map_cons, List.nodup_cons]
    refine ⟨?_, ih h.2⟩
    intro hm
    rw [List.mem_map] at hm
    obtain ⟨y, hy, he⟩ := hm
    exact h.1 (hf y x he ▸ hy)

/-- the copies j = 0 … n of a group of distinct plain names under the stack `outer ++ [j]`:
no generated name occurs twice (one level of expansion) -/
theorem copies_nodup (names : List Name) (outer : List Nat) (n : Nat)
    (hp : ∀ x ∈ names, plainName x = true) (hn : names.Nodup) :
    ((List.range (n + 1)).flatMap (fun j => names.map (fun x => x ++ idxSuffix (outer ++ [j])))).Nodup := by
  have e : (List.range (n + 1)).flatMap (fun j => names.map (fun x => x ++ idxSuffix (outer ++ [j])))
      = ((List.range (n + 1)).flatMap (fun j => names.map (fun x => (x, outer ++ [j])))).map (fun p => p.1 ++ idxSuffix p.2) := by
    simp [List.map_flatMap, Function.comp_def]
  rw [e]
  apply generated_nodup
  · intro p hp'
    simp only [List.mem_flatMap, List.mem_map] at hp'
    obtain ⟨j, _, x, hx, rfl⟩ := hp'
    exact hp x hx
  · -- pairs differ in the copy index or in the name
    have hr : (List.range (n + 1)).Nodup := List.nodup_range
    generalize List.range (n + 1) = js at hr
    induction js with
    | nil => simp
    | cons j r ih =>
      rw [List.nodup_cons] at hr
      rw [List.flatMap_cons, List.nodup_append]
      refine ⟨?_, ih hr.2, ?_⟩
      · exact nodup_map_inj (fun x : Name => (x, outer ++ [j])) (by intro a b h; injection h) names hn
      · intro a ha b hb hab
        simp only [List.mem_map] at ha
        simp only [List.mem_flatMap, List.mem_map] at hb
        obtain ⟨x, _, rfl⟩ := ha
        obtain ⟨j', hj', y, _, rfl⟩ := hb
        injection hab with _ hs
        have : j = j' := by
          have := List.append_cancel_left hs
          simpa using this
        exact hr.1 (this ▸ hj')

/-- renumbered ellipses `...[k]` are distinct for distinct k, and differ from `...` -/
theorem ellipsis_names_inj (a b : Nat) (h : ([46, 46, 46, 91] : Bytes) ++ decDigits a ++ [93] = [46, 46, 46, 91] ++ decDigits b ++ [93]) : a = b := by
  simp only [List.append_assoc, List.cons_append, List.nil_append, List.cons.injEq, true_and] at h
  exact decDigits_inj a b (List.append_cancel_right h)

end Secs
