/-
The message name token never contains a white-space rune: the header lexer skips every
white-space rune before a token and ends a name at the first one. The constructor decodes the
name on its own, after the lexer cut it out of the input — that the two decodings agree is
`decodeRune_take`.
-/
import SecsModel.Proofs.LexLayout
namespace Secs
namespace Lex
open Utf8

/-- cutting the input anywhere at or after the end of its first rune does not change that rune -/
theorem decodeRune_take (s : Bytes) (k : Nat) (h : (decodeRune s).2 ≤ k) (hk : 1 ≤ k) :
    decodeRune (s.take k) = decodeRune s := by
  rcases s with _ | ⟨b0, _ | ⟨b1, _ | ⟨b2, _ | ⟨b3, rest⟩⟩⟩⟩
  · simp
  · rcases k with _ | k
    · omega
    · simp
  · rcases k with _ | _ | k
    · omega
    · revert h; simp only [decodeRune, List.take]; repeat' split
      all_goals simp_all
    · simp
  · rcases k with _ | _ | _ | k
    · omega
    · revert h; simp only [decodeRune, List.take]; repeat' split
      all_goals simp_all
    · revert h; simp only [decodeRune, List.take]; repeat' split
      all_goals simp_all
    · simp
  · rcases k with _ | _ | _ | _ | k
    · omega
    · revert h; simp only [decodeRune, List.take]; repeat' split
      all_goals simp_all
    · revert h; simp only [decodeRune, List.take]; repeat' split
      all_goals simp_all
    · revert h; simp only [decodeRune, List.take]; repeat' split
      all_goals simp_all
    · revert h; simp only [decodeRune, List.take]; repeat' split
      all_goals simp_all

theorem decodeRune_width_le (s : Bytes) : (decodeRune s).2 ≤ s.length := by
  rcases s with _ | ⟨b0, _ | ⟨b1, _ | ⟨b2, _ | ⟨b3, rest⟩⟩⟩⟩
  all_goals (simp only [decodeRune]; repeat' split)
  all_goals simp_all
  all_goals omega

/-- the fuel of `runes` is irrelevant once it covers the input -/
theorem runesAux_fuel : ∀ (f1 f2 : Nat) (s : Bytes), s.length ≤ f1 → s.length ≤ f2 → runesAux f1 s = runesAux f2 s := by
  intro f1
  induction f1 with
  | zero =>
    intro f2 s h1 _
    have : s = [] := List.eq_nil_of_length_eq_zero (by omega)
    subst this
    cases f2 <;> simp [runesAux]
  | succ n ih =>
    intro f2 s h1 h2
    cases s with
    | nil => cases f2 <;> simp [runesAux]
    | cons b r =>
      cases f2 with
      | zero => simp at h2
      | succ k =>
        simp only [runesAux]
        congr 1
        apply ih
        · simp only [List.length_drop, List.length_cons] at h1 ⊢; omega
        · simp only [List.length_drop, List.length_cons] at h2 ⊢; omega

theorem runes_cons_rune (s : Bytes) (hs : s ≠ []) :
    runes s = (decodeRune s).1 :: runes (s.drop (decodeRune s).2) := by
  cases s with
  | nil => exact absurd rfl hs
  | cons b r =>
    have hw := decodeRune_width_pos b r
    unfold runes
    simp only [List.length_cons, runesAux]
    have hm : max (decodeRune (b :: r)).2 1 = (decodeRune (b :: r)).2 := by omega
    rw [hm]
    congr 1
    apply runesAux_fuel
    · simp only [List.length_drop, List.length_cons]; omega
    · exact Nat.le_refl _

def noSpace (v : Bytes) : Prop := (runes v).any isSpace = false

/-- a first rune that is not white space, cut out together with a white-space-free prefix of
what follows it, is white-space-free -/
theorem noSpace_step (s nm' : Bytes) (hs : s ≠ []) (hr : isSpace (decodeRune s).1 = false)
    (hpre : nm' = (s.drop (decodeRune s).2).take nm'.length) (hn : noSpace nm') :
    noSpace (s.take (decodeRune s).2 ++ nm') := by
  have hwle := decodeRune_width_le s
  have hwpos : 1 ≤ (decodeRune s).2 := by
    cases s with
    | nil => exact absurd rfl hs
    | cons b r => exact decodeRune_width_pos b r
  have hnm : s.take (decodeRune s).2 ++ nm' = s.take ((decodeRune s).2 + nm'.length) := by
    rw [List.take_add, ← hpre]
  have hdec : decodeRune (s.take (decodeRune s).2 ++ nm') = decodeRune s := by
    rw [hnm]; exact decodeRune_take s _ (by omega) (by omega)
  have hne : s.take (decodeRune s).2 ++ nm' ≠ [] := by
    intro h
    have := (List.append_eq_nil_iff.mp h).1
    exact take_ne_nil s _ hs hwpos this
  unfold noSpace
  rw [runes_cons_rune _ hne, hdec]
  have hdrop : (s.take (decodeRune s).2 ++ nm').drop (decodeRune s).2 = nm' := by
    have hl : (s.take (decodeRune s).2).length = (decodeRune s).2 := by
      rw [List.length_take]; omega
    rw [List.drop_append_of_le_length (by omega)]
    rw [List.drop_of_length_le (by omega)]
    simp
  rw [hdrop]
  simp only [List.any_cons, hr, Bool.false_or]
  exact hn

theorem scanName_noSpace : ∀ (fuel : Nat) (s : Bytes),
    scanName fuel s = s.take (scanName fuel s).length ∧ noSpace (scanName fuel s) := by
  intro fuel
  induction fuel with
  | zero => intro s; simp [scanName, noSpace, runes, runesAux]
  | succ n ih =>
    intro s
    cases s with
    | nil => simp [scanName, noSpace, runes, runesAux]
    | cons b r =>
      simp only [scanName]
      split
      · simp [noSpace, runes, runesAux]
      · split
        · simp [noSpace, runes, runesAux]
        · rename_i hsp _
          obtain ⟨hp, hn⟩ := ih ((b :: r).drop (decodeRune (b :: r)).2)
          have hwle := decodeRune_width_le (b :: r)
          constructor
          · rw [List.length_append, List.length_take, Nat.min_eq_left hwle, List.take_add, ← hp]
          · exact noSpace_step (b :: r) _ (by simp) (by simpa using hsp) hp hn

end Lex
end Secs
