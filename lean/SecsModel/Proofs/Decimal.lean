/- Decimal printing and strconv parsing are inverse (used by C05, C15, C04). -/
import SecsModel.Basic
import SecsModel.Model.Strconv
namespace Secs
open Strconv

def digitFold (acc : Nat) (ds : Bytes) : Nat := ds.foldl (fun a c => a * 10 + (c - 48)) acc

theorem decDigits_spec (n : Nat) : (∀ c ∈ decDigits n, 48 ≤ c ∧ c ≤ 57) ∧ digitFold 0 (decDigits n) = n := by
  induction n using Nat.strongRecOn with
  | _ n ih =>
    rw [decDigits]
    by_cases h : n < 10
    · simp only [h, dite_true, List.mem_singleton, forall_eq, digitFold, List.foldl_cons, List.foldl_nil]
      omega
    · simp only [h, dite_false]
      have := ih (n / 10) (by omega)
      refine ⟨?_, ?_⟩
      · intro c hc
        simp only [List.mem_append, List.mem_singleton] at hc
        rcases hc with hc | hc
        · exact this.1 c hc
        · omega
      · simp only [digitFold, List.foldl_append, List.foldl_cons, List.foldl_nil]
        have h2 := this.2
        simp only [digitFold] at h2
        rw [h2]; omega

theorem decDigits_ne_nil (n : Nat) : decDigits n ≠ [] := by
  rw [decDigits]; split <;> simp

theorem digitFold_mono (ds : Bytes) (acc : Nat) : acc ≤ digitFold acc ds := by
  induction ds generalizing acc with
  | nil => simp [digitFold]
  | cons c r ih =>
    simp only [digitFold, List.foldl_cons]
    have := ih (acc * 10 + (c - 48))
    simp only [digitFold] at this
    omega

theorem puLoop_digits (maxVal : Nat) (ds : Bytes) (hd : ∀ c ∈ ds, 48 ≤ c ∧ c ≤ 57) (acc : Nat)
    (hle : digitFold acc ds ≤ maxVal) :
    puLoop 10 maxVal false ds acc false = (digitFold acc ds, none, false) := by
  induction ds generalizing acc with
  | nil => simp [puLoop, digitFold]
  | cons c r ih =>
    have hc := hd c (by simp)
    have hr : ∀ x ∈ r, 48 ≤ x ∧ x ≤ 57 := fun x hx => hd x (by simp [hx])
    have hdv : digitVal c = some (c - 48) := by
      simp only [digitVal, isDigitB, Bool.and_eq_true, decide_eq_true_eq]
      simp [hc.1, hc.2]
    have hlt : c - 48 < 10 := by omega
    have hstep : digitFold acc (c :: r) = digitFold (acc * 10 + (c - 48)) r := by simp [digitFold]
    have hmono := digitFold_mono r (acc * 10 + (c - 48))
    rw [hstep] at hle ⊢
    have hn : ¬ (acc * 10 + (c - 48) > maxVal) := by omega
    have h95 : (c == 95 && false) = false := by simp
    simp only [puLoop, h95, Bool.false_eq_true, if_false, hdv]
    have hge : ¬ (c - 48 ≥ 10) := by omega
    simp only [hge, if_false, hn]
    exact ih hr _ hle

/-- strconv.Atoi of the decimal digits of a number below 2^63 is that number, without error -/
theorem atoi_decDigits (n : Nat) (h : n < 2 ^ 63) : atoi (decDigits n) = ⟨n, none⟩ := by
  have hs := decDigits_spec n
  have hne := decDigits_ne_nil n
  obtain ⟨c, r, hcr⟩ : ∃ c r, decDigits n = c :: r := by
    cases hd : decDigits n with
    | nil => exact absurd hd hne
    | cons c r => exact ⟨c, r, rfl⟩
  have hc := hs.1 c (by rw [hcr]; simp)
  have hu : parseUint (decDigits n) 10 0 = ⟨n, none⟩ := by
    unfold parseUint
    have he : (decDigits n).isEmpty = false := by rw [hcr]; rfl
    simp only [he, Bool.false_eq_true, if_false]
    have hb : ((10 : Nat) == 0) = false := by decide
    simp only [hb, Bool.false_eq_true, if_false]
    have hz : ((0 : Nat) == 0) = true := by decide
    simp only [hz, if_true]
    have := puLoop_digits (2 ^ 64 - 1) (decDigits n) hs.1 0 (by rw [hs.2]; omega)
    rw [this, hs.2]
    simp
  unfold atoi parseInt
  have he : (decDigits n).isEmpty = false := by rw [hcr]; rfl
  simp only [he, Bool.false_eq_true, if_false]
  have hsign : splitSign (decDigits n) = (false, decDigits n) := by
    rw [hcr]
    unfold splitSign
    split
    · rename_i heq; injection heq with h1 _; omega
    · rename_i heq; injection heq with h1 _; omega
    · rfl
  rw [hsign]
  simp only [hu]
  have hz : ((0 : Nat) == 0) = true := by decide
  simp only [hz, if_true]
  have h1 : ¬ (n ≥ 2 ^ (64 - 1)) := by omega
  simp [h1]

/-- the digit loop on a number that does not fit: clamped to the maximum, range error -/
theorem puLoop_digits_over (maxVal : Nat) (ds : Bytes) (hd : ∀ c ∈ ds, 48 ≤ c ∧ c ≤ 57) (acc : Nat)
    (hacc : acc ≤ maxVal) (hgt : maxVal < digitFold acc ds) :
    puLoop 10 maxVal false ds acc false = (maxVal, some .range, false) := by
  induction ds generalizing acc with
  | nil => simp [digitFold] at hgt; omega
  | cons c r ih =>
    have hc := hd c (by simp)
    have hr : ∀ x ∈ r, 48 ≤ x ∧ x ≤ 57 := fun x hx => hd x (by simp [hx])
    have hdv : digitVal c = some (c - 48) := by
      simp only [digitVal, isDigitB, Bool.and_eq_true, decide_eq_true_eq]
      simp [hc.1, hc.2]
    have hstep : digitFold acc (c :: r) = digitFold (acc * 10 + (c - 48)) r := by simp [digitFold]
    rw [hstep] at hgt
    have h95 : (c == 95 && false) = false := by simp
    simp only [puLoop, h95, Bool.false_eq_true, if_false, hdv]
    have hge : ¬ (c - 48 ≥ 10) := by omega
    simp only [hge, if_false]
    by_cases hn : acc * 10 + (c - 48) > maxVal
    · simp [hn]
    · simp only [hn, if_false]
      exact ih hr _ (by omega) hgt

/-- strconv.Atoi of the decimal digits of ANY number: the number itself below 2^63, otherwise the
clamped value 2^63 − 1 (with a range error that the size parser ignores) -/
theorem atoi_decDigits_val (n : Nat) : (atoi (decDigits n)).val = ((min n (2 ^ 63 - 1) : Nat) : Int) := by
  by_cases hsmall : n < 2 ^ 63
  · rw [atoi_decDigits n hsmall]
    have : min n (2 ^ 63 - 1) = n := by omega
    rw [this]
  have hs := decDigits_spec n
  have hne := decDigits_ne_nil n
  obtain ⟨c, r, hcr⟩ : ∃ c r, decDigits n = c :: r := by
    cases hd : decDigits n with
    | nil => exact absurd hd hne
    | cons c r => exact ⟨c, r, rfl⟩
  have hc := hs.1 c (by rw [hcr]; simp)
  have hu : (parseUint (decDigits n) 10 0).val ≥ 2 ^ 63 ∧ (parseUint (decDigits n) 10 0).err ≠ some .syntax := by
    unfold parseUint
    have he : (decDigits n).isEmpty = false := by rw [hcr]; rfl
    simp only [he, Bool.false_eq_true, if_false]
    have hb : ((10 : Nat) == 0) = false := by decide
    simp only [hb, Bool.false_eq_true, if_false]
    have hz : ((0 : Nat) == 0) = true := by decide
    simp only [hz, if_true]
    by_cases hfit : n ≤ 2 ^ 64 - 1
    · have := puLoop_digits (2 ^ 64 - 1) (decDigits n) hs.1 0 (by rw [hs.2]; exact hfit)
      rw [this, hs.2]
      simp
      omega
    · have := puLoop_digits_over (2 ^ 64 - 1) (decDigits n) hs.1 0 (by omega) (by rw [hs.2]; omega)
      rw [this]
      simp
  unfold atoi parseInt
  have he : (decDigits n).isEmpty = false := by rw [hcr]; rfl
  simp only [he, Bool.false_eq_true, if_false]
  have hsign : splitSign (decDigits n) = (false, decDigits n) := by
    rw [hcr]
    unfold splitSign
    split
    · rename_i heq; injection heq with h1 _; omega
    · rename_i heq; injection heq with h1 _; omega
    · rfl
  rw [hsign]
  have hns : ((parseUint (decDigits n) 10 0).err == some NumErr.syntax) = false := by
    cases he2 : (parseUint (decDigits n) 10 0).err with
    | none => rfl
    | some e =>
      cases e
      · exact absurd he2 hu.2
      · rfl
  dsimp only
  simp only [hns, Bool.false_eq_true, if_false]
  have hz : ((0 : Nat) == 0) = true := by decide
  simp only [hz, if_true]
  have h1 : (parseUint (decDigits n) 10 0).val ≥ 2 ^ (64 - 1) := hu.1
  have hmin : min n (2 ^ 63 - 1) = 2 ^ 63 - 1 := by omega
  simp [h1, hmin]

/-- ParseInt: a syntax error comes with the value 0 -/
theorem parseInt_syntax_val (s : Bytes) (b bs : Nat) (h : (parseInt s b bs).err = some .syntax) :
    (parseInt s b bs).val = 0 := by
  unfold parseInt at h ⊢
  dsimp only at h ⊢
  by_cases h1 : s.isEmpty = true
  · simp [h1]
  · simp only [h1, if_false] at h ⊢
    by_cases h2 : ((parseUint (splitSign s).2 b bs).err == some NumErr.syntax) = true
    · simp [h2]
    · simp only [h2, if_false] at h ⊢
      exfalso
      generalize (2 : Nat) ^ ((if (bs == 0) = true then 64 else bs) - 1) = cut at h
      by_cases h3 : (!(splitSign s).1 && decide ((parseUint (splitSign s).2 b bs).val ≥ cut)) = true
      · simp [h3] at h
      · simp only [h3, if_false] at h
        by_cases h4 : ((splitSign s).1 && decide ((parseUint (splitSign s).2 b bs).val > cut)) = true
        · simp [h4] at h
        · simp [h4] at h

end Secs
