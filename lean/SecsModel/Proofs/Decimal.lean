/- Decimal printing and strconv parsing are inverse (used by C05, C15, C04). -/
import SecsModel.Basic
import SecsModel.Model.Strconv
namespace Secs
open Strconv

def digitFold (acc : Nat) (ds : Bytes) : Nat := ds.foldl (fun a c => a * 10 + (c - 48)) acc

theorem decDigits_spec (n : Nat) : (∀ c ∈ decDigits n, 48 ≤ c ∧ c ≤ 57) ∧ digitFold 0 (decDigits n) = n := by
  induction n using Nat.strongRecOn with
  | _ n ih =>
    rw [decDigits]
    by_cases h : n < 10
    · simp only [h, dite_true, List.mem_singleton, forall_eq, digitFold, List.foldl_cons, List.foldl_nil]
      omega
    · simp only [h, dite_false]
      have := ih (n / 10) (by omega)
      refine ⟨?_, ?_⟩
      · intro c hc
        simp only [List.mem_append, List.mem_singleton] at hc
        rcases hc with hc | hc
        · exact this.1 c hc
        · omega
      · simp only [digitFold, List.foldl_append, List.foldl_cons, List.foldl_nil]
        have h2 := this.2
        simp only [digitFold] at h2
        rw [h2]; omega

theorem decDigits_ne_nil (n : Nat) : decDigits n ≠ [] := by
  rw [decDigits]; split <;> simp

theorem digitFold_mono (ds : Bytes) (acc : Nat) : acc ≤ digitFold acc ds := by
  induction ds generalizing acc with
  | nil => simp [digitFold]
  | cons c r ih =>
    simp only [digitFold, List.foldl_cons]
    have := ih (acc * 10 + (c - 48))
    simp only [digitFold] at this
    omega

theorem puLoop_digits (maxVal : Nat) (ds : Bytes) (hd : ∀ c ∈ ds, 48 ≤ c ∧ c ≤ 57) (acc : Nat)
    (hle : digitFold acc ds ≤ maxVal) :
    puLoop 10 maxVal false ds acc false = (digitFold acc ds, none, false) := by
  induction ds generalizing acc with
  | nil => simp [puLoop, digitFold]
  | cons c r ih =>
    have hc := hd c (by simp)
    have hr : ∀ x ∈ r, 48 ≤ x ∧ x ≤ 57 := fun x hx => hd x (by simp [hx])
    have hdv : digitVal c = some (c - 48) := by
      simp only [digitVal, isDigitB, Bool.and_eq_true, decide_eq_true_eq]
      simp [hc.1, hc.2]
    have hlt : c - 48 < 10 := by omega
    have hstep : digitFold acc (c :: r) = digitFold (acc * 10 + (c - 48)) r := by simp [digitFold]
    have hmono := digitFold_mono r (acc * 10 + (c - 48))
    rw [hstep] at hle ⊢
    have hn : ¬ (acc * 10 + (c - 48) > maxVal) := by omega
    have h95 : (c == 95 && false) = false := by simp
    simp only [puLoop, h95, Bool.false_eq_true, if_false, hdv]
    have hge : ¬ (c - 48 ≥ 10) := by omega
    simp only [hge, if_false, hn]
    exact ih hr _ hle

/-- strconv.Atoi of the decimal digits of a number below 2^63 is that number, without error -/
theorem atoi_decDigits (n : Nat) (h : n < 2 ^ 63) : atoi (decDigits n) = ⟨n, none⟩ := by
  have hs := decDigits_spec n
  have hne := decDigits_ne_nil n
  obtain ⟨c, r, hcr⟩ : ∃ c r, decDigits n = c :: r := by
    cases hd : decDigits n with
    | nil => exact absurd hd hne
    | cons c r => exact ⟨c, r, rfl⟩
  have hc := hs.1 c (by rw [hcr]; simp)
  have hu : parseUint (decDigits n) 10 0 = ⟨n, none⟩ := by
    unfold parseUint
    have he : (decDigits n).isEmpty = false := by rw [hcr]; rfl
    simp only [he, Bool.false_eq_true, if_false]
    have hb : ((10 : Nat) == 0) = false := by decide
    simp only [hb, Bool.false_eq_true, if_false]
    have hz : ((0 : Nat) == 0) = true := by decide
    simp only [hz, if_true]
    have := puLoop_digits (2 ^ 64 - 1) (decDigits n) hs.1 0 (by rw [hs.2]; omega)
    rw [this, hs.2]
    simp
  unfold atoi parseInt
  have he : (decDigits n).isEmpty = false := by rw [hcr]; rfl
  simp only [he, Bool.false_eq_true, if_false]
  have hsign : splitSign (decDigits n) = (false, decDigits n) := by
    rw [hcr]
    unfold splitSign
    split
    · rename_i heq; injection heq with h1 _; omega
    · rename_i heq; injection heq with h1 _; omega
    · rfl
  rw [hsign]
  simp only [hu]
  have hz : ((0 : Nat) == 0) = true := by decide
  simp only [hz, if_true]
  have h1 : ¬ (n ≥ 2 ^ (64 - 1)) := by omega
  simp [h1]

end Secs
