/-
Lexer locality, part 1 (the step between `C19.tokens_independent` and the text-level statement
`C19.texts_independent` for texts in arbitrary spelling): on a text that ends with a line feed a
scanner has decided what it returns before it could look past that line feed, so appending more
input does not change it. Here: runs of bytes (`spanB_lf`), rune decoding (`decodeRune_lf`),
skipping what a mode ignores (`skipR_lf`), comments (`scanComment_lf`), the stream/function matcher
(`matchSF_lf`) and the wait-bit matcher (`matchW_lf`). The remaining scanners are in
Proofs/LexScan, the induction over the steps in Proofs/LexConcat.
-/
import SecsModel.Proofs.LexLayout
import SecsModel.Proofs.NameRunes
import SecsModel.Proofs.LexPrinted
namespace Secs
namespace Lex

/-- the text ends with a line feed -/
def EndsLF (x : Bytes) : Prop := ∃ pre, x = pre ++ [10]

theorem EndsLF.ne_nil {x : Bytes} (h : EndsLF x) : x ≠ [] := by
  obtain ⟨pre, rfl⟩ := h; simp

theorem EndsLF.tail {c : Nat} {x : Bytes} (h : EndsLF (c :: x)) (hx : x ≠ []) : EndsLF x := by
  obtain ⟨pre, hp⟩ := h
  cases pre with
  | nil => simp at hp; exact absurd hp.2 hx
  | cons d pre' => simp at hp; exact ⟨pre', hp.2⟩

theorem EndsLF.drop {x : Bytes} (h : EndsLF x) (n : Nat) (hn : n < x.length) : EndsLF (x.drop n) := by
  obtain ⟨pre, rfl⟩ := h
  refine ⟨pre.drop n, ?_⟩
  simp only [List.length_append, List.length_singleton] at hn
  rw [List.drop_append_of_le_length (by omega)]

/-- a scan that cannot pass a line feed stops inside the text -/
theorem spanB_lf (p : Nat → Bool) (hp : p 10 = false) : ∀ (x b : Bytes), EndsLF x →
    spanB p (x ++ b) = ((spanB p x).1, (spanB p x).2 ++ b) ∧ (spanB p x).2 ≠ []
  | [], b, h => absurd rfl h.ne_nil
  | c :: x, b, h => by
    by_cases hx : x = []
    · subst hx
      obtain ⟨pre, hpre⟩ := h
      have hc : c = 10 := by
        cases pre with
        | nil => simpa using hpre
        | cons d r => simp at hpre
      subst hc
      simp [spanB, hp]
    · have ih := spanB_lf p hp x b (h.tail hx)
      simp only [List.cons_append, spanB]
      split
      · simp [ih.1, ih.2]
      · simp

open Utf8 in
/-- decoding the first rune never needs a byte behind the final line feed -/
theorem decodeRune_lf (x b : Bytes) (h : EndsLF x) : decodeRune (x ++ b) = decodeRune x := by
  obtain ⟨pre, rfl⟩ := h
  have hlf : isCont 10 = false := by decide
  rcases pre with _ | ⟨b0, _ | ⟨b1, _ | ⟨b2, _ | ⟨b3, r⟩⟩⟩⟩
  · rfl
  · -- [b0, 10]
    simp only [List.cons_append, List.nil_append, decodeRune]
    repeat' split
    all_goals first | (simp_all; done) | (simp_all; omega)
  · -- [b0, b1, 10]
    simp only [List.cons_append, List.nil_append, decodeRune]
    repeat' split
    all_goals first | (simp_all; done) | (simp_all; omega)
  · simp only [List.cons_append, List.nil_append, decodeRune]
  · simp only [List.cons_append, List.nil_append, decodeRune]

/-- what is left after skipping what mode `m` ignores -/
def skipR (m : Mode) (s : Bytes) : Bytes := (skipWs m s.length ⟨s, 0, []⟩).rest

theorem skipWs_rest_skipR (m : Mode) (f : Nat) (p : Pos) (h : p.rest.length ≤ f) : (skipWs m f p).rest = skipR m p.rest := by
  unfold skipR
  rw [skipWs_fuel m f p.rest.length p h (Nat.le_refl _)]
  exact skipWs_rest m _ p ⟨p.rest, 0, []⟩ rfl

theorem skipR_nil (m : Mode) : skipR m [] = [] := rfl

theorem skipR_cons (m : Mode) (c : Nat) (r : Bytes) :
    skipR m (c :: r) =
      if isBlank c then skipR m r
      else match m with
        | .text => c :: r
        | .header =>
          if c < 128 then (if Utf8.isSpace c then skipR m r else c :: r)
          else if Utf8.isSpace (Utf8.decodeRune (c :: r)).1 then skipR m ((c :: r).drop (Utf8.decodeRune (c :: r)).2) else c :: r := by
  have hstep : ∀ bs : Bytes, bs ≠ [] → bs.length ≤ (c :: r).length →
      (skipWs m r.length (advance ⟨c :: r, 0, []⟩ bs)).rest = skipR m ((c :: r).drop bs.length) := by
    intro bs hbs hle
    have hr : (advance ⟨c :: r, 0, []⟩ bs).rest = (c :: r).drop bs.length := advance_rest bs _
    rw [skipWs_rest_skipR m _ _ (by rw [hr]; have : 0 < bs.length := List.length_pos_iff.mpr hbs; simp; omega), hr]
  conv => lhs; unfold skipR
  rw [show (c :: r).length = r.length + 1 from rfl, skipWs]
  simp only
  split
  · simpa using hstep [c] (by simp) (by simp)
  · cases m with
    | text => rfl
    | header =>
      simp only
      split
      · split
        · simpa using hstep [c] (by simp) (by simp)
        · rfl
      · split
        · have hw := decodeRune_width_pos c r
          have hle := decodeRune_width_le (c :: r)
          have := hstep ((c :: r).take (Utf8.decodeRune (c :: r)).2) (take_ne_nil _ _ (by simp) hw) (by simp; omega)
          rw [this]
          congr 1
          simp only [List.length_take]
          congr 1
          omega
        · rfl

theorem endsLF_of_drop (x : Bytes) (n : Nat) (h : EndsLF x) (hd : x.drop n ≠ []) : EndsLF (x.drop n) :=
  h.drop n (by
    by_cases hn : n < x.length
    · exact hn
    · exact absurd (List.drop_eq_nil_of_le (by omega)) hd)

/-- skipping what the mode ignores: either it stops inside the text (and then more input behind
the text changes nothing), or the whole text is skipped and skipping goes on in what follows -/
theorem skipR_lf (m : Mode) (b : Bytes) : ∀ (n : Nat) (x : Bytes), x.length ≤ n → EndsLF x →
    (skipR m x ≠ [] → skipR m (x ++ b) = skipR m x ++ b ∧ EndsLF (skipR m x)) ∧
    (skipR m x = [] → skipR m (x ++ b) = skipR m b)
  | 0, x, hn, h => by
    have := h.ne_nil
    cases x with
    | nil => exact absurd rfl this
    | cons c r => simp at hn
  | n + 1, [], _, h => absurd rfl h.ne_nil
  | n + 1, c :: r, hn, h => by
    have hrec : ∀ d : Bytes, d.length ≤ n → (d ≠ [] → EndsLF d) →
        (skipR m d ≠ [] → skipR m (d ++ b) = skipR m d ++ b ∧ EndsLF (skipR m d)) ∧
        (skipR m d = [] → skipR m (d ++ b) = skipR m b) := by
      intro d hd hE
      by_cases hdn : d = []
      · subst hdn
        exact ⟨fun hne => absurd (skipR_nil m) hne, fun _ => by simp⟩
      · exact skipR_lf m b n d hd (hE hdn)
    have hr := hrec r (by simp at hn; omega) (fun hne => h.tail hne)
    rw [show (c :: r) ++ b = c :: (r ++ b) from rfl, skipR_cons m c (r ++ b), skipR_cons m c r]
    by_cases hb : isBlank c = true
    · simp only [hb, if_true]; exact hr
    · simp only [hb, Bool.false_eq_true, if_false]
      cases m with
      | text => exact ⟨fun _ => ⟨rfl, h⟩, fun hnil => by cases hnil⟩
      | header =>
        simp only
        by_cases hc : c < 128
        · simp only [hc, if_true]
          by_cases hs : Utf8.isSpace c = true
          · simp only [hs, if_true]; exact hr
          · simp only [hs, Bool.false_eq_true, if_false]
            exact ⟨fun _ => ⟨rfl, h⟩, fun hnil => by cases hnil⟩
        · simp only [hc, if_false]
          have hdr : Utf8.decodeRune (c :: (r ++ b)) = Utf8.decodeRune (c :: r) := decodeRune_lf (c :: r) b h
          rw [hdr]
          by_cases hs : Utf8.isSpace (Utf8.decodeRune (c :: r)).1 = true
          · simp only [hs, if_true]
            have hw := decodeRune_width_pos c r
            have hle := decodeRune_width_le (c :: r)
            have hdrop : (c :: (r ++ b)).drop (Utf8.decodeRune (c :: r)).2 = (c :: r).drop (Utf8.decodeRune (c :: r)).2 ++ b := by
              rw [show c :: (r ++ b) = (c :: r) ++ b from rfl, List.drop_append_of_le_length hle]
            rw [hdrop]
            exact hrec _ (by simp at hn ⊢; omega) (fun hne => endsLF_of_drop _ _ h hne)
          · simp only [hs, Bool.false_eq_true, if_false]
            exact ⟨fun _ => ⟨rfl, h⟩, fun hnil => by cases hnil⟩

/-! ### the scanners -/

theorem endsLF_cases {x : Bytes} (h : EndsLF x) : x = [10] ∨ ∃ c r, x = c :: r ∧ EndsLF r := by
  obtain ⟨pre, rfl⟩ := h
  cases pre with
  | nil => exact Or.inl rfl
  | cons c r => exact Or.inr ⟨c, r ++ [10], rfl, r, rfl⟩

theorem startsWith_comment_lf (x b : Bytes) (h : EndsLF x) : startsWith [47, 47] (x ++ b) = startsWith [47, 47] x := by
  rcases endsLF_cases h with rfl | ⟨c, r, rfl, hr⟩
  · cases b <;> simp [startsWith]
  · rcases endsLF_cases hr with rfl | ⟨d, r', rfl, _⟩
    · cases b <;> simp [startsWith]
    · simp [startsWith]

theorem scanComment_lf (x b : Bytes) (h : EndsLF x) :
    scanComment (x ++ b) = scanComment x ∧ (scanComment x).2 = false ∧
      (spanB (· != 10) x).1.length < x.length := by
  obtain ⟨h1, h2⟩ := spanB_lf (· != 10) (by decide) x b h
  unfold scanComment
  simp only [h1]
  cases hr : (spanB (fun x => x != 10) x).2 with
  | nil => exact absurd hr h2
  | cons d r' =>
    refine ⟨by simp, by simp, ?_⟩
    have := congrArg List.length (spanB_spec (· != 10) x).1
    rw [hr] at this
    simp at this
    omega

theorem endsLF_tail_of_ne {c : Nat} {r : Bytes} (h : EndsLF (c :: r)) (hc : c ≠ 10) : EndsLF r := by
  rcases endsLF_cases h with h1 | ⟨c', r', h1, hr⟩
  · injection h1 with h1 _; exact absurd h1 hc
  · injection h1 with _ h2; exact h2 ▸ hr

theorem matchSF_lf (x b : Bytes) (h : EndsLF x) : matchSF (x ++ b) = matchSF x := by
  cases x with
  | nil => exact absurd rfl h.ne_nil
  | cons c r =>
    simp only [List.cons_append, matchSF]
    split
    · rename_i hc
      have hc10 : c ≠ 10 := by
        intro h10; subst h10; simp at hc
      have hr := endsLF_tail_of_ne h hc10
      obtain ⟨s1, s2⟩ := spanB_lf isDigitB (by decide) r b hr
      rw [s1]
      simp only
      split
      · rfl
      · cases hr1 : (spanB isDigitB r).2 with
        | nil => exact absurd hr1 s2
        | cons f r2 =>
          simp only [List.cons_append]
          split
          · rename_i hf
            have hf10 : f ≠ 10 := by
              intro h10; subst h10; simp at hf
            have hr1E : EndsLF (f :: r2) := by
              have hsp := (spanB_spec isDigitB r).1
              rw [hr1] at hsp
              obtain ⟨pre, hpre⟩ := hr
              -- the rest of a text that ends with a line feed ends with it too
              have hne : (f :: r2) ≠ [] := by simp
              have : (f :: r2) = r.drop (spanB isDigitB r).1.length := by
                have e1 : (f :: r2) = ((spanB isDigitB r).1 ++ f :: r2).drop (spanB isDigitB r).1.length :=
                  Eq.symm List.drop_left
                rw [hsp] at e1
                exact e1
              rw [this]
              exact endsLF_of_drop r _ ⟨pre, hpre⟩ (by rw [← this]; exact hne)
            have hr2 := endsLF_tail_of_ne hr1E hf10
            obtain ⟨t1, _⟩ := spanB_lf isDigitB (by decide) r2 b hr2
            rw [t1]
          · rfl
    · rfl

theorem matchW_lf (x b : Bytes) (h : EndsLF x) : matchW (x ++ b) = matchW x := by
  obtain ⟨pre, rfl⟩ := h
  rcases pre with _ | ⟨c0, _ | ⟨c1, _ | ⟨c2, r⟩⟩⟩
  · cases b <;> rfl
  · cases b with
    | nil => rfl
    | cons b0 b' =>
      simp only [List.cons_append, List.nil_append, matchW]
      split <;> split <;> simp_all
  · cases b with
    | nil => rfl
    | cons b0 b' =>
      simp only [List.cons_append, List.nil_append, matchW]
      split <;> split <;> simp_all
  · simp only [List.cons_append, matchW]
    split <;> split <;> simp_all

end Lex
end Secs
