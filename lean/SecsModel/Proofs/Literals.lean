/-
What an integer literal of the SML grammar denotes: decimal, `0x…`, `0o…` / a leading `0`,
`0b…`, with an optional sign — and that ParseUint / ParseInt with base 0 (as the SML parser
calls them) return exactly that number when it fits, for every literal.
-/
import SecsModel.Proofs.PrintParseNum
namespace Secs
open Strconv

/-- the number a digit string denotes in base `b` -/
def litVal (b : Nat) (ds : Bytes) (acc : Nat := 0) : Nat := ds.foldl (fun a c => a * b + (digitVal c).getD 0) acc

/-- all characters are digits of base `b` -/
def digitsOf (b : Nat) (ds : Bytes) : Prop := ∀ c ∈ ds, ∃ d, digitVal c = some d ∧ d < b

theorem litVal_mono (b : Nat) (ds : Bytes) (acc : Nat) (hb : 1 ≤ b) : acc ≤ litVal b ds acc := by
  induction ds generalizing acc with
  | nil => simp [litVal]
  | cons c r ih =>
    simp only [litVal, List.foldl_cons]
    have := ih (acc * b + (digitVal c).getD 0)
    simp only [litVal] at this
    have h1 : acc ≤ acc * b := Nat.le_mul_of_pos_right acc hb
    omega

theorem digit_not_underscore (c d : Nat) (h : digitVal c = some d) : (c == 95) = false := by
  cases hc : (c == 95) with
  | false => rfl
  | true =>
    have : c = 95 := by simpa using hc
    subst this
    simp [digitVal, isDigitB, isAlphaB, isUpperB, isLowerB] at h

/-- the digit loop of ParseUint on a string of digits of the base -/
theorem puLoop_base (b maxVal : Nat) (b0 : Bool) (hb : 1 ≤ b) : ∀ (ds : Bytes) (acc : Nat), digitsOf b ds →
    litVal b ds acc ≤ maxVal → puLoop b maxVal b0 ds acc false = (litVal b ds acc, none, false) := by
  intro ds
  induction ds with
  | nil => intro acc _ _; simp [puLoop, litVal]
  | cons c r ih =>
    intro acc hd hle
    obtain ⟨d, hdv, hdb⟩ := hd c (by simp)
    have hr : digitsOf b r := fun x hx => hd x (by simp [hx])
    have h95 : (c == 95 && b0) = false := by simp [digit_not_underscore c d hdv]
    have hstep : litVal b (c :: r) acc = litVal b r (acc * b + d) := by simp [litVal, hdv]
    have hmono := litVal_mono b r (acc * b + d) hb
    rw [hstep] at hle ⊢
    simp only [puLoop, h95, Bool.false_eq_true, if_false, hdv]
    have h1 : ¬ (d ≥ b) := by omega
    have h2 : ¬ (acc * b + d > maxVal) := by omega
    simp only [h1, if_false, h2]
    exact ih _ hr hle

/-- ParseUint(s, 0, bits) when the prefix of `s` announces base `b` and the rest are digits of
that base denoting a number that fits -/
theorem parseUint_of_prefix (s ds : Bytes) (b bits : Nat) (hs : s ≠ []) (hpre : basePrefix s = (b, ds)) (hb : 1 ≤ b)
    (hd : digitsOf b ds) (hfit : litVal b ds ≤ 2 ^ (if (bits == 0) = true then 64 else bits) - 1) :
    parseUint s 0 bits = ⟨litVal b ds, none⟩ := by
  unfold parseUint
  have he : s.isEmpty = false := by cases s <;> simp_all
  have hz : ((0 : Nat) == 0) = true := by decide
  have hloop := puLoop_base b (2 ^ (if (bits == 0) = true then 64 else bits) - 1) true hb ds 0 hd hfit
  simp only [he, Bool.false_eq_true, if_false, hz, if_true, hpre, hloop]
  simp

/-! ### the prefixes -/

theorem basePrefix_hex (x : Nat) (hx : x = 120 ∨ x = 88) (c : Nat) (r : Bytes) :
    basePrefix (48 :: x :: c :: r) = (16, c :: r) := by
  rcases hx with rfl | rfl <;> simp [basePrefix, lowerB, isUpperB]

theorem basePrefix_bin (x : Nat) (hx : x = 98 ∨ x = 66) (c : Nat) (r : Bytes) :
    basePrefix (48 :: x :: c :: r) = (2, c :: r) := by
  rcases hx with rfl | rfl <;> simp [basePrefix, lowerB, isUpperB]

theorem basePrefix_oct (x : Nat) (hx : x = 111 ∨ x = 79) (c : Nat) (r : Bytes) :
    basePrefix (48 :: x :: c :: r) = (8, c :: r) := by
  rcases hx with rfl | rfl <;> simp [basePrefix, lowerB, isUpperB]

/-- a leading `0` followed by an octal digit: octal -/
theorem basePrefix_zero (c : Nat) (r : Bytes) (hc : 48 ≤ c ∧ c ≤ 55) : basePrefix (48 :: c :: r) = (8, c :: r) := by
  have hl : lowerB c = c := by
    unfold lowerB isUpperB
    have : ¬ ((decide (65 ≤ c) && decide (c ≤ 90)) = true) := by simp; omega
    rw [if_neg this]
  have h1 : (lowerB c == 98) = false := by rw [hl]; simp; omega
  have h2 : (lowerB c == 111) = false := by rw [hl]; simp; omega
  have h3 : (lowerB c == 120) = false := by rw [hl]; simp; omega
  simp [basePrefix, h1, h2, h3]

theorem basePrefix_dec (c : Nat) (r : Bytes) (hc : 49 ≤ c ∧ c ≤ 57) : basePrefix (c :: r) = (10, c :: r) := by
  unfold basePrefix
  split
  · rename_i heq; injection heq with h1 _; omega
  · rename_i heq; injection heq with h1 _; omega
  · rfl

/-- **Unsigned literals denote their value**: hexadecimal, binary, octal (both spellings) and
decimal, read with base 0 into `bits` bits. -/
theorem uint_literal_denotes (bits : Nat) (c : Nat) (r : Bytes) (value : Nat)
    (hfit : value ≤ 2 ^ (if (bits == 0) = true then 64 else bits) - 1) :
    (∀ x, (x = 120 ∨ x = 88) → digitsOf 16 (c :: r) → litVal 16 (c :: r) = value → parseUint (48 :: x :: c :: r) 0 bits = ⟨value, none⟩) ∧
    (∀ x, (x = 98 ∨ x = 66) → digitsOf 2 (c :: r) → litVal 2 (c :: r) = value → parseUint (48 :: x :: c :: r) 0 bits = ⟨value, none⟩) ∧
    (∀ x, (x = 111 ∨ x = 79) → digitsOf 8 (c :: r) → litVal 8 (c :: r) = value → parseUint (48 :: x :: c :: r) 0 bits = ⟨value, none⟩) ∧
    (digitsOf 8 (c :: r) → litVal 8 (c :: r) = value → parseUint (48 :: c :: r) 0 bits = ⟨value, none⟩) ∧
    (49 ≤ c ∧ c ≤ 57 → digitsOf 10 (c :: r) → litVal 10 (c :: r) = value → parseUint (c :: r) 0 bits = ⟨value, none⟩) := by
  refine ⟨?_, ?_, ?_, ?_, ?_⟩
  · intro x hx hd hv
    rw [← hv] at hfit ⊢
    exact parseUint_of_prefix _ _ 16 bits (by simp) (basePrefix_hex x hx c r) (by decide) hd hfit
  · intro x hx hd hv
    rw [← hv] at hfit ⊢
    exact parseUint_of_prefix _ _ 2 bits (by simp) (basePrefix_bin x hx c r) (by decide) hd hfit
  · intro x hx hd hv
    rw [← hv] at hfit ⊢
    exact parseUint_of_prefix _ _ 8 bits (by simp) (basePrefix_oct x hx c r) (by decide) hd hfit
  · intro hd hv
    rw [← hv] at hfit ⊢
    obtain ⟨d, hdv, hd8⟩ := hd c (by simp)
    have hc : 48 ≤ c ∧ c ≤ 55 := by
      simp only [digitVal] at hdv
      split at hdv
      · rename_i h; simp only [isDigitB, Bool.and_eq_true, decide_eq_true_eq] at h
        injection hdv with hdv; omega
      · split at hdv
        · injection hdv with hdv; omega
        · cases hdv
    exact parseUint_of_prefix _ _ 8 bits (by simp) (basePrefix_zero c r hc) (by decide) hd hfit
  · intro hc hd hv
    rw [← hv] at hfit ⊢
    exact parseUint_of_prefix _ _ 10 bits (by simp) (basePrefix_dec c r hc) (by decide) hd hfit


/-- **Signed literals**: a sign in front of an unsigned literal that ParseUint reads as `v`:
ParseInt returns `v`, `+v` or `-v` exactly when it fits the signed range of `bits` bits. -/
theorem int_literal_denotes (u : Bytes) (bits B v : Nat) (hB : (if (bits == 0) = true then 64 else bits) = B)
    (hu : parseUint u 0 bits = ⟨v, none⟩) (hne : u ≠ []) (hfirst : ∀ c r, u = c :: r → c ≠ 43 ∧ c ≠ 45) :
    (v < 2 ^ (B - 1) → parseInt u 0 bits = ⟨v, none⟩ ∧ parseInt (43 :: u) 0 bits = ⟨v, none⟩) ∧
    (v ≤ 2 ^ (B - 1) → parseInt (45 :: u) 0 bits = ⟨-(v : Int), none⟩) := by
  obtain ⟨c, r, hcr⟩ : ∃ c r, u = c :: r := by cases u <;> simp_all
  obtain ⟨h43, h45⟩ := hfirst c r hcr
  have hs0 : splitSign u = (false, u) := by
    rw [hcr]; unfold splitSign
    split
    · rename_i heq; injection heq with h1 _; exact absurd h1 h43
    · rename_i heq; injection heq with h1 _; exact absurd h1 h45
    · rfl
  have hsp : splitSign (43 :: u) = (false, u) := rfl
  have hsm : splitSign (45 :: u) = (true, u) := rfl
  have hemp : u.isEmpty = false := by rw [hcr]; rfl
  refine ⟨?_, ?_⟩
  · intro hv
    have h1 : ¬ (v ≥ 2 ^ (B - 1)) := by omega
    constructor
    · unfold parseInt
      simp only [hemp, Bool.false_eq_true, if_false, hs0, hu, hB]
      simp [h1]
    · unfold parseInt
      simp only [List.isEmpty_cons, Bool.false_eq_true, if_false, hsp, hu, hB]
      simp [h1]
  · intro hv
    have h1 : ¬ (v > 2 ^ (B - 1)) := by omega
    unfold parseInt
    simp only [List.isEmpty_cons, Bool.false_eq_true, if_false, hsm, hu, hB]
    simp [h1]

/-- test: a few literals of each form through the theorems above -/
example : litVal 16 [49, 70] = 31 ∧ litVal 2 [49, 48, 49] = 5 ∧ litVal 8 [49, 55] = 15 ∧ litVal 10 [52, 50] = 42 := by decide

end Secs
