/- Message-level framing lemmas (C01, C02, C03). -/
import SecsModel.Proofs.RoundTrip
namespace Secs

mutual
theorem sz_lt_enc (t : Tmpl) (hw : t.wf = true) (hc : t.closed = true) : t.sz + 1 ≤ t.enc.length := by
  cases t with
  | list xs =>
    simp only [Tmpl.wf, Bool.and_eq_true, decide_eq_true_eq] at hw
    have hcl : xs.closedAll = true := by simpa [Tmpl.closed] using hc
    obtain ⟨p, hp, hle⟩ := szs_le_encs xs hw.1.1.2 hcl
    have hmax : xs.len * Fmt.list.width ≤ maxByteSize := by simpa [Fmt.width] using hw.1.1.1
    have := nLB_pos (xs.len * Fmt.list.width)
    simp only [Tmpl.enc, headerBytes_closed .list xs.len hmax, hp, List.length_append, List.length_cons,
      beEnc_length, Tmpl.sz]
    omega
  | ascii s => have := enc_length_ge (.ascii s) hw hc; simp [Tmpl.sz]; omega
  | asciiVar n a b => simp [Tmpl.closed] at hc
  | empty => simp [Tmpl.closed] at hc
  | binary xs => have := enc_length_ge (.binary xs) hw hc; simp [Tmpl.sz]; omega
  | boolean xs => have := enc_length_ge (.boolean xs) hw hc; simp [Tmpl.sz]; omega
  | int w xs => have := enc_length_ge (.int w xs) hw hc; simp [Tmpl.sz]; omega
  | uint w xs => have := enc_length_ge (.uint w xs) hw hc; simp [Tmpl.sz]; omega
  | float w xs => have := enc_length_ge (.float w xs) hw hc; simp [Tmpl.sz]; omega
theorem szs_le_encs (xs : Slots) (hw : xs.wfAll = true) (hc : xs.closedAll = true) :
    ∃ p, xs.enc = some p ∧ xs.szs ≤ p.length := by
  cases xs with
  | nil => exact ⟨[], rfl, by simp [Slots.szs]⟩
  | var n r => simp [Slots.closedAll] at hc
  | item t r =>
    simp only [Slots.wfAll, Bool.and_eq_true] at hw
    simp only [Slots.closedAll, Bool.and_eq_true] at hc
    obtain ⟨p, hp, hle⟩ := szs_le_encs r hw.2 hc.2
    have := sz_lt_enc t hw.1 hc.1
    refine ⟨t.enc ++ p, encs_item t r hw.1 hc.1 p hp, ?_⟩
    simp only [Slots.szs, List.length_append]
    omega
end

/-- `decodeText` in terms of the item decoder -/
theorem decodeText_some (text : Bytes) (t : Tmpl) :
    decodeText text = some t ↔ decItem (text.length + 1) text = some (t, []) := by
  unfold decodeText
  constructor
  · intro h
    split at h
    · rename_i t' heq; injection h with h; subst h; exact heq
    · cases h
  · intro h; rw [h]

/-- decoding the text of a message: exactly one item and nothing left over -/
theorem decItem_text (t : Tmpl) (hw : t.wf = true) (hc : t.closed = true) :
    decItem (t.enc.length + 1) t.enc = some (t, []) := by
  have h := decItem_enc t hw hc [] (t.enc.length + 1) (by have := sz_lt_enc t hw hc; omega)
  simpa using h

theorem beEnc2 (n : Nat) : beEnc 2 n = [n / 256 % 256, n % 256] := by simp [beEnc]
theorem beEnc4 (n : Nat) : beEnc 4 n = [n / 256 / 256 / 256 % 256, n / 256 / 256 % 256, n / 256 % 256, n % 256] := by
  simp [beEnc]

theorem length4 (l : Bytes) (h : l.length = 4) : ∃ a b c d, l = [a, b, c, d] := by
  match l, h with
  | [a, b, c, d], _ => exact ⟨a, b, c, d, rfl⟩

end Secs

namespace Secs

/-- `decode` on a framed data message, with the header bytes spelled out -/
theorem decode_frame (x y b2 fn a b c d : Nat) (text : Bytes) (hL : text.length + 10 < 256 ^ 4) :
    decode (beEnc 4 (text.length + 10) ++ (x :: y :: b2 :: fn :: 0 :: 0 :: a :: b :: c :: d :: text)) =
    match (if text.length + 10 == 10 then some Tmpl.empty else decodeText text) with
    | none => none
    | some item =>
      (mkHsmsMsg [] ((b2 % 128 : Nat) : Int) ((fn : Nat) : Int) ((b2 / 128 : Nat) : Int) dirBoth item
        ((beDec [x, y] : Nat) : Int) [a, b, c, d]).map HMsg.data := by
  have hfo : frameOk (beEnc 4 (text.length + 10) ++ (x :: y :: b2 :: fn :: 0 :: 0 :: a :: b :: c :: d :: text)) = true := by
    unfold frameOk
    simp only [List.take_left' (beEnc_length 4 _), List.drop_left' (beEnc_length 4 _), beDec_beEnc 4 _ hL]
    simp [beEnc4]
  have hst : (beEnc 4 (text.length + 10) ++ (x :: y :: b2 :: fn :: 0 :: 0 :: a :: b :: c :: d :: text)).getD 9 0 = 0 := by
    simp [beEnc4]
  unfold decode
  simp only [hfo, Bool.not_true, Bool.false_eq_true, if_false, hst, beq_self_eq_true, if_true]
  unfold decodeData
  simp only [List.take_left' (beEnc_length 4 _), List.drop_left' (beEnc_length 4 _), beDec_beEnc 4 _ hL]
  have hd14 : (beEnc 4 (text.length + 10) ++ (x :: y :: b2 :: fn :: 0 :: 0 :: a :: b :: c :: d :: text)).drop 14 = text := by
    simp [beEnc4]
  rw [hd14]
  simp only [List.take, List.drop, List.getD_cons_succ, List.getD_cons_zero]
  rfl

/-- the bytes of a complete message, with the header bytes spelled out -/
theorem enc_frame (m : Msg) (hc : m.complete = true) (a b c d : Nat) (hs : m.sysBytes = [a, b, c, d]) :
    m.enc = beEnc 4 (m.item.enc.length + 10) ++
      (m.sessionID.toNat / 256 % 256 :: m.sessionID.toNat % 256 ::
       (m.stream.toNat + (if m.waitBit == 1 then 128 else 0)) % 256 :: m.function.toNat % 256 :: 0 :: 0 ::
       a :: b :: c :: d :: m.item.enc) := by
  unfold Msg.enc
  simp [hc, hs, beEnc2]

end Secs
