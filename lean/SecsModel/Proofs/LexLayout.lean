/-
Layout theory of the lexer model: the token stream from a lexer state depends only on the
unread input (positions aside), a run of blanks in front of a token is invisible, and a comment
up to its line end contributes exactly one comment token.
-/
import SecsModel.Proofs.Lexer
namespace Secs
namespace Lex

/-- a token without its position -/
def eraseT (t : Tok) : Tok := { t with line := 0, col := 0 }

/-- what a step does apart from positions: the token, and the mode and unread input after it -/
def Step.sig : Step → Tok × Option (Mode × Bytes)
  | .tok t m q => (eraseT t, some (m, q.rest))
  | .last t => (eraseT t, none)

theorem emit_sig (k : Kind) (v raw : Bytes) (m : Mode) (p : Pos) :
    (emit k v raw m p).sig = (⟨k, v, 0, 0, none⟩, some (m, p.rest.drop raw.length)) := by
  simp [emit, Step.sig, mkTok, eraseT, advance_rest]

theorem last_tok_sig (k : Kind) (v : Bytes) (p : Pos) : (Step.last (mkTok k v p)).sig = (⟨k, v, 0, 0, none⟩, none) := by
  simp [Step.sig, mkTok, eraseT]

theorem last_err_sig (e : LexErr) (p : Pos) : (Step.last (mkErr e p)).sig = (⟨.error, [], 0, 0, some e⟩, none) := by
  simp [Step.sig, mkErr, eraseT]

/-- the canonical state with the same unread input -/
def canon (p : Pos) : Pos := ⟨p.rest, 0, []⟩

theorem stepHeader_sig (p : Pos) : (stepHeader p).sig = (stepHeader (canon p)).sig := by
  unfold stepHeader canon
  dsimp only
  repeat' split
  all_goals simp only [emit_sig, last_tok_sig, last_err_sig]

theorem stepText_sig (ual : List Nat) (p : Pos) : (stepText ual p).sig = (stepText ual (canon p)).sig := by
  unfold stepText canon
  dsimp only
  repeat' split
  all_goals simp only [emit_sig, last_tok_sig, last_err_sig]

theorem skipWs_rest (m : Mode) : ∀ (fuel : Nat) (p p' : Pos), p.rest = p'.rest →
    (skipWs m fuel p).rest = (skipWs m fuel p').rest := by
  intro fuel
  induction fuel with
  | zero => intro p p' h; simpa [skipWs] using h
  | succ n ih =>
    intro p p' h
    rw [skipWs, skipWs, ← h]
    cases hp : p.rest with
    | nil => simp only; rw [hp] at h; exact h.symm ▸ hp ▸ rfl
    | cons b r =>
      simp only
      have adv : ∀ bs : Bytes, (advance p bs).rest = (advance p' bs).rest := by
        intro bs; rw [advance_rest, advance_rest, h]
      split
      · exact ih _ _ (adv _)
      · cases m with
        | text => exact h
        | header =>
          simp only
          split
          · split
            · exact ih _ _ (adv _)
            · exact h
          · split
            · exact ih _ _ (adv _)
            · exact h


theorem canon_eq (p p' : Pos) (h : p.rest = p'.rest) : canon p = canon p' := by simp [canon, h]

/-- one step depends on the lexer state only through the unread input -/
theorem lexStep_sig (ual : List Nat) (m : Mode) (p p' : Pos) (h : p.rest = p'.rest) :
    (lexStep ual m p).sig = (lexStep ual m p').sig := by
  unfold lexStep
  have hq := skipWs_rest m p.rest.length p p' h
  rw [← h]
  cases m with
  | header =>
    simp only
    rw [stepHeader_sig, stepHeader_sig (skipWs .header p.rest.length p'), canon_eq _ _ hq]
  | text =>
    simp only
    rw [stepText_sig, stepText_sig ual (skipWs .text p.rest.length p'), canon_eq _ _ hq]

/-- T1: the token stream depends on the lexer state only through the unread input, positions
aside -/
theorem lexFuel_erase (ual : List Nat) : ∀ (fuel : Nat) (m : Mode) (p p' : Pos), p.rest = p'.rest →
    (lexFuel ual fuel m p).map eraseT = (lexFuel ual fuel m p').map eraseT := by
  intro fuel
  induction fuel with
  | zero => intro m p p' _; rfl
  | succ n ih =>
    intro m p p' h
    have hs := lexStep_sig ual m p p' h
    rw [lexFuel, lexFuel]
    cases h1 : lexStep ual m p with
    | last t =>
      cases h2 : lexStep ual m p' with
      | last t' =>
        rw [h1, h2] at hs
        simp only [Step.sig, Prod.mk.injEq] at hs
        simp [hs.1]
      | tok t' m' q' => rw [h1, h2] at hs; simp [Step.sig] at hs
    | tok t m1 q =>
      cases h2 : lexStep ual m p' with
      | last t' => rw [h1, h2] at hs; simp [Step.sig] at hs
      | tok t' m' q' =>
        rw [h1, h2] at hs
        simp only [Step.sig, Prod.mk.injEq, Option.some.injEq] at hs
        obtain ⟨ht, hm, hq⟩ := hs
        subst hm
        simp [ht, ih m1 q q' hq]

theorem decodeRune_width_pos (b : Nat) (r : Bytes) : 1 ≤ (Utf8.decodeRune (b :: r)).2 := by
  unfold Utf8.decodeRune
  repeat' split
  all_goals first
    | (simp; done)
    | (split <;> simp; done)
    | (simp_all; done)
    | (simp_all; split <;> simp; done)

/-- the fuel of skipWs is irrelevant once it covers the unread input -/
theorem skipWs_fuel (m : Mode) : ∀ (f1 f2 : Nat) (p : Pos), p.rest.length ≤ f1 → p.rest.length ≤ f2 →
    skipWs m f1 p = skipWs m f2 p := by
  intro f1
  induction f1 with
  | zero =>
    intro f2 p h1 _
    have hnil : p.rest = [] := List.eq_nil_of_length_eq_zero (by omega)
    cases f2 with
    | zero => rfl
    | succ k => rw [skipWs, skipWs, hnil]
  | succ n ih =>
    intro f2 p h1 h2
    cases f2 with
    | zero =>
      have hnil : p.rest = [] := List.eq_nil_of_length_eq_zero (by omega)
      rw [skipWs, skipWs, hnil]
    | succ k =>
      rw [skipWs, skipWs]
      cases hp : p.rest with
      | nil => rfl
      | cons b r =>
        simp only
        have hl : ∀ bs : Bytes, bs ≠ [] → (advance p bs).rest.length ≤ n ∧ (advance p bs).rest.length ≤ k := by
          intro bs hbs
          rw [advance_length, hp]
          have : 0 < bs.length := List.length_pos_iff.mpr hbs
          rw [hp] at h1 h2
          simp only [List.length_cons] at h1 h2 ⊢
          omega
        split
        · exact ih k _ (hl [b] (by simp)).1 (hl [b] (by simp)).2
        · cases m with
          | text => rfl
          | header =>
            simp only
            split
            · split
              · exact ih k _ (hl [b] (by simp)).1 (hl [b] (by simp)).2
              · rfl
            · split
              · have hw : (b :: r).take (Utf8.decodeRune (b :: r)).2 ≠ [] :=
                  take_ne_nil _ _ (by simp) (decodeRune_width_pos b r)
                exact ih k _ (hl _ hw).1 (hl _ hw).2
              · rfl


theorem skipWs_blank (m : Mode) (fuel : Nat) (p : Pos) (b : Nat) (r : Bytes) (hb : isBlank b = true)
    (hp : p.rest = b :: r) : skipWs m (fuel + 1) p = skipWs m fuel (advance p [b]) := by
  rw [skipWs, hp]
  simp [hb]

/-- a run of blanks in front: the lexer state after skipping is the one reached from the end of
the run -/
theorem blanks_skipped (m : Mode) : ∀ (ws y : Bytes) (p : Pos), (∀ b ∈ ws, isBlank b = true) → p.rest = ws ++ y →
    ∃ q : Pos, q.rest = y ∧ skipWs m p.rest.length p = skipWs m q.rest.length q := by
  intro ws
  induction ws with
  | nil => intro y p _ hp; exact ⟨p, by simpa using hp, rfl⟩
  | cons b ws ih =>
    intro y p hws hp
    have hb := hws b (by simp)
    have hp' : p.rest = b :: (ws ++ y) := by simpa using hp
    have hlen : p.rest.length = (ws ++ y).length + 1 := by rw [hp']; simp
    have hadv : (advance p [b]).rest = ws ++ y := by rw [advance_rest, hp']; simp
    obtain ⟨q, hq, hs⟩ := ih y (advance p [b]) (fun x hx => hws x (by simp [hx])) hadv
    refine ⟨q, hq, ?_⟩
    rw [hlen, skipWs_blank m _ p b (ws ++ y) hb hp', ← hs, hadv]

theorem lexStep_blanks (ual : List Nat) (m : Mode) (ws y : Bytes) (p : Pos)
    (hws : ∀ b ∈ ws, isBlank b = true) (hp : p.rest = ws ++ y) :
    ∃ q : Pos, q.rest = y ∧ lexStep ual m p = lexStep ual m q := by
  obtain ⟨q, hq, hs⟩ := blanks_skipped m ws y p hws hp
  refine ⟨q, hq, ?_⟩
  unfold lexStep
  simp only [hs]

/-- the token stream from the start of `rest` in mode `m` -/
def lexFrom (ual : List Nat) (m : Mode) (rest : Bytes) : List Tok :=
  lexFuel ual (rest.length + 1) m ⟨rest, 1, []⟩

theorem lexFuel_eq_lexFrom (ual : List Nat) (m : Mode) (p : Pos) (fuel : Nat) (h : p.rest.length < fuel) :
    (lexFuel ual fuel m p).map eraseT = (lexFrom ual m p.rest).map eraseT := by
  have h1 : lexFuel ual fuel m p = lexFuel ual (p.rest.length + 1) m p := by
    have := lexFuel_stable ual (p.rest.length + 1) m p (fuel - (p.rest.length + 1)) (by omega)
    rw [← this]; congr 1; omega
  rw [h1]
  exact lexFuel_erase ual _ m p ⟨p.rest, 1, []⟩ rfl

/-- T2: a run of blanks (space, tab, CR, LF, in any mix and number) where the lexer looks for the
next token is invisible in the token stream, positions aside -/
theorem blank_run_invisible (ual : List Nat) (m : Mode) (ws y : Bytes) (hws : ∀ b ∈ ws, isBlank b = true) :
    (lexFrom ual m (ws ++ y)).map eraseT = (lexFrom ual m y).map eraseT := by
  obtain ⟨q, hq, hs⟩ := lexStep_blanks ual m ws y ⟨ws ++ y, 1, []⟩ hws rfl
  have e : lexFrom ual m (ws ++ y) = lexFuel ual ((ws ++ y).length + 1) m q := by
    unfold lexFrom
    rw [lexFuel, lexFuel, hs]
  rw [e, lexFuel_eq_lexFrom ual m q _ (by rw [hq]; simp; omega), hq]

/-- the same for two different runs: replacing one blank run by another changes nothing -/
theorem blank_runs_equivalent (ual : List Nat) (m : Mode) (ws ws' y : Bytes)
    (h : ∀ b ∈ ws, isBlank b = true) (h' : ∀ b ∈ ws', isBlank b = true) :
    (lexFrom ual m (ws ++ y)).map eraseT = (lexFrom ual m (ws' ++ y)).map eraseT := by
  rw [blank_run_invisible ual m ws y h, blank_run_invisible ual m ws' y h']


/-! ### comments -/

def isTrimB (b : Nat) : Bool := b == 32 || b == 9 || b == 13

theorem mem_takeWhile' (f : Nat → Bool) : ∀ (l : Bytes) (b : Nat), b ∈ l.takeWhile f → f b = true
  | [], b, h => by simp at h
  | x :: l, b, h => by
    simp only [List.takeWhile] at h
    split at h
    · rename_i hx
      rcases List.mem_cons.mp h with rfl | h'
      · exact hx
      · exact mem_takeWhile' f l b h'
    · simp at h

theorem trimRight_split (f : Nat → Bool) (x : Bytes) :
    ∃ t, x = trimRight f x ++ t ∧ ∀ b ∈ t, f b = true := by
  refine ⟨(x.reverse.takeWhile f).reverse, ?_, ?_⟩
  · unfold trimRight
    rw [← List.reverse_append, List.takeWhile_append_dropWhile, List.reverse_reverse]
  · intro b hb
    rw [List.mem_reverse] at hb
    exact mem_takeWhile' f _ b hb

theorem spanB_stop' (p : Nat → Bool) (c : Bytes) (b : Nat) (r : Bytes)
    (hc : ∀ x ∈ c, p x = true) (hb : p b = false) : spanB p (c ++ b :: r) = (c, b :: r) := by
  induction c with
  | nil => simp [spanB, hb]
  | cons x xs ih =>
    have hx := hc x (by simp)
    have := ih (fun y hy => hc y (by simp [hy]))
    simp [spanB, hx, this]

theorem scanComment_line (c r : Bytes) (hc : ∀ x ∈ c, x ≠ 10) :
    scanComment (47 :: 47 :: c ++ 10 :: r) = (trimRight (fun b => b == 32 || b == 9 || b == 13) (47 :: 47 :: c), false) := by
  unfold scanComment
  have h := spanB_stop' (· != 10) (47 :: 47 :: c) 10 r
    (by intro x hx
        rcases List.mem_cons.mp hx with rfl | hx
        · decide
        · rcases List.mem_cons.mp hx with rfl | hx
          · decide
          · simpa using hc x hx)
    (by decide)
  rw [show (47 :: 47 :: c ++ 10 :: r) = (47 :: 47 :: c) ++ 10 :: r by simp, h]

theorem skipWs_slash (m : Mode) (fuel : Nat) (p : Pos) (r : Bytes) (hp : p.rest = 47 :: r) : skipWs m fuel p = p := by
  cases fuel with
  | zero => rfl
  | succ n =>
    rw [skipWs, hp]
    cases m <;> simp [isBlank, Utf8.isSpace]

/-- the step at a comment: one comment token (the text without trailing blanks, tabs, CRs), the
mode is kept, and what is left unread is blanks and the line end -/
theorem lexStep_comment (ual : List Nat) (m : Mode) (p : Pos) (c y : Bytes) (hc : ∀ x ∈ c, x ≠ 10)
    (hp : p.rest = 47 :: 47 :: c ++ 10 :: y) :
    ∃ (C t : Bytes) (q : Pos), lexStep ual m p = .tok (mkTok .comment C p) m q ∧
      q.rest = t ++ 10 :: y ∧ (∀ b ∈ t, isBlank b = true) ∧ 47 :: 47 :: c = C ++ t := by
  obtain ⟨t, ht, htb⟩ := trimRight_split (fun b => b == 32 || b == 9 || b == 13) (47 :: 47 :: c)
  refine ⟨trimRight (fun b => b == 32 || b == 9 || b == 13) (47 :: 47 :: c), t, advance p (trimRight (fun b => b == 32 || b == 9 || b == 13) (47 :: 47 :: c)), ?_, ?_, ?_, ht⟩
  · unfold lexStep
    rw [skipWs_slash m _ p _ hp]
    cases m with
    | header =>
      simp only
      unfold stepHeader
      rw [hp]
      simp only [startsWith, List.length_cons, List.length_nil, List.take, beq_self_eq_true, if_true]
      rw [scanComment_line c y hc]
      rfl
    | text =>
      simp only
      unfold stepText
      rw [hp]
      simp only [startsWith, List.length_cons, List.length_nil, List.take, beq_self_eq_true, if_true]
      rw [scanComment_line c y hc]
      rfl
  · rw [advance_rest, hp]
    have : (47 :: 47 :: c ++ 10 :: y) = trimRight (fun b => b == 32 || b == 9 || b == 13) (47 :: 47 :: c) ++ (t ++ 10 :: y) := by
      have h2 : (47 :: 47 :: c ++ 10 :: y) = (47 :: 47 :: c) ++ 10 :: y := by simp
      rw [h2]
      conv => lhs; rw [ht]
      simp
    rw [this, List.drop_left]
  · intro b hb
    have := htb b hb
    simp only [Bool.or_eq_true, beq_iff_eq] at this
    rcases this with (h | h) | h <;> simp [isBlank, h]

/-- T3: a comment up to its line end, wherever the lexer looks for the next token and whatever
bytes it contains, contributes exactly one comment token; the rest of the stream is the stream
of what follows the line, positions aside -/
theorem comment_one_token (ual : List Nat) (m : Mode) (c y : Bytes) (hc : ∀ x ∈ c, x ≠ 10) :
    ∃ C : Bytes, (lexFrom ual m (47 :: 47 :: c ++ 10 :: y)).map eraseT =
      ⟨.comment, C, 0, 0, none⟩ :: (lexFrom ual m y).map eraseT := by
  obtain ⟨C, t, q, hs, hq, htb, _⟩ := lexStep_comment ual m ⟨47 :: 47 :: c ++ 10 :: y, 1, []⟩ c y hc rfl
  refine ⟨C, ?_⟩
  unfold lexFrom
  rw [lexFuel, hs]
  simp only [List.map_cons]
  have hlen : q.rest.length < (47 :: 47 :: c ++ 10 :: y).length := by
    have := lexStep_decreases ual m _ _ _ _ hs
    simpa using this
  rw [lexFuel_eq_lexFrom ual m q _ hlen, hq]
  have hb : ∀ b ∈ t ++ [10], isBlank b = true := by
    intro b hb
    rcases List.mem_append.mp hb with h | h
    · exact htb b h
    · simp at h; simp [h, isBlank]
  have := blank_run_invisible ual m (t ++ [10]) y hb
  rw [show t ++ 10 :: y = (t ++ [10]) ++ y by simp, this]
  simp [mkTok, eraseT, lexFrom]

/-- the parser's view (comment tokens dropped): the comment line is invisible -/
theorem comment_invisible (ual : List Nat) (m : Mode) (c y : Bytes) (hc : ∀ x ∈ c, x ≠ 10) :
    ((lexFrom ual m (47 :: 47 :: c ++ 10 :: y)).map eraseT).filter (fun t => t.kind != .comment) =
      ((lexFrom ual m y).map eraseT).filter (fun t => t.kind != .comment) := by
  obtain ⟨C, h⟩ := comment_one_token ual m c y hc
  rw [h, List.filter_cons]
  rfl

end Lex
end Secs
