/-
Every item the SML parser hands out is well formed (`Tmpl.wfS`, Proofs/FillWF.lean): the parser
builds items only through the factories, bottom up, so the invariant of the factories carries
over to whatever `parse` returns - for every input, accepted or not, at any nesting depth.
In particular no variable name occurs twice anywhere in a parsed message, and ellipses stand
only where a list may have one.
-/
import SecsModel.Model.Parser
import SecsModel.Proofs.FillWF
namespace Secs.Sml
open Secs Secs.Lex

/-- a sub-parser result that, when it is an item, is a well-formed one -/
def OkWf (r : R Tmpl) : Prop := ∀ t, r = .ok t → t.wfS = true

theorem okWf_stop : OkWf .stop := fun _ h => by cases h
theorem okWf_panic : OkWf .panic := fun _ h => by cases h

theorem okWf_ofFactory (o : Option Tmpl) (h : ∀ t, o = some t → t.wfS = true) : OkWf (ofFactory o) := by
  intro t ht
  cases o with
  | none => simp [ofFactory] at ht
  | some t' => simp only [ofFactory, R.ok.injEq] at ht; subst ht; exact h t' rfl

theorem asciiLoop_wf (mn mx : Int) (n : Nat) : ∀ (ts : List Tok) (lit : Bytes) (s : PS), OkWf (asciiLoop mn mx n ts lit s).1
  | [], lit, s => by
    simp only [asciiLoop]
    exact okWf_ofFactory _ (fun t h => mkAscii_wfS _ t h)
  | t :: r, lit, s => by
    unfold asciiLoop
    split
    · dsimp only
      split
      · exact asciiLoop_wf mn mx n r _ _
      · exact asciiLoop_wf mn mx n r _ _
    · dsimp only
      split
      · exact asciiLoop_wf mn mx n r _ _
      · exact asciiLoop_wf mn mx n r _ _
    · split
      · exact okWf_stop
      · split
        · intro t' h; simp only [R.ok.injEq] at h; subst h; rfl
        · exact okWf_ofFactory _ (fun t' h => mkAsciiVar_wfS _ _ _ t' h)
    · exact okWf_stop
    · exact okWf_stop

theorem asciiItem_wf (lo hi : Int) (s : PS) : OkWf (asciiItem lo hi s).1 := by
  unfold asciiItem
  exact asciiLoop_wf _ _ _ _ _ _

theorem arrayItem_wf (ty : Bytes) (s : PS) : OkWf (arrayItem ty s).1 := by
  unfold arrayItem
  dsimp only
  split
  · exact okWf_stop
  · dsimp only
    refine okWf_ofFactory _ ?_
    intro t h
    split at h
    · exact mkBinary_wfS _ t h
    · split at h
      · exact mkBoolean_wfS _ t h
      · split at h
        · exact mkFloat_wfS _ _ t h
        · split at h
          · exact mkInt_wfS _ _ t h
          · exact mkUint_wfS _ _ t h

theorem closeTail_wf (item : Tmpl) (s : PS) (h : item.wfS = true) : OkWf (closeTail item s).1 := by
  unfold closeTail
  dsimp only
  split
  · exact okWf_stop
  · intro t ht; simp only [R.ok.injEq] at ht; subst ht; exact h

theorem closeItem_wf (sizeTok : Tok) (lo hi : Int) (res : R Tmpl) (s : PS) (h : OkWf res) :
    OkWf (closeItem sizeTok lo hi res s).1 := by
  unfold closeItem
  cases res with
  | stop => exact okWf_stop
  | panic => exact okWf_panic
  | ok item =>
    dsimp only
    split
    · exact closeTail_wf item _ (h item rfl)
    · exact closeTail_wf item _ (h item rfl)

theorem recoverItem_wf (lab : Tok) (body : R Tmpl × PS) (h : OkWf body.1) : OkWf (recoverItem lab body).1 := by
  unfold recoverItem
  split
  · exact okWf_stop
  · exact h

theorem itemBody_wf (ll : PS → R Tmpl × PS) (hll : ∀ s, OkWf (ll s).1) (s : PS) : OkWf (itemBody ll s).1 := by
  unfold itemBody
  dsimp only
  split
  · exact okWf_stop
  · split
    · exact okWf_stop
    · refine closeItem_wf _ _ _ _ _ ?_
      split
      · exact hll _
      · split
        · exact asciiItem_wf _ _ _
        · exact arrayItem_wf _ _

theorem itemsWfS_reverse (acc : List GoVal) (h : itemsWfS acc = true) : itemsWfS acc.reverse = true := by
  induction acc with
  | nil => rfl
  | cons g r ih =>
    have hr : itemsWfS r = true := by
      cases g <;> simp only [itemsWfS, Bool.and_eq_true] at h <;> first | exact h | exact h.2
    have hg : itemsWfS [g] = true := by
      cases g <;> simp only [itemsWfS, Bool.and_eq_true, Bool.and_true] at h ⊢ <;> first | rfl | exact h.1
    rw [List.reverse_cons, itemsWfS_append, ih hr, hg]; rfl

theorem parseItem_wf : ∀ fuel : Nat,
    (∀ s : PS, OkWf (parseItemF fuel s).1) ∧
    (∀ (count : Nat) (acc : List GoVal) (s : PS), itemsWfS acc = true → OkWf (parseItemF.listLoop fuel count acc s).1)
  | 0 => ⟨fun s => by simp only [parseItemF]; exact okWf_stop, fun c a s _ => by simp only [parseItemF.listLoop]; exact okWf_stop⟩
  | fuel + 1 => by
    have ih := parseItem_wf fuel
    constructor
    · intro s
      unfold parseItemF
      dsimp only
      split
      · exact okWf_stop
      · exact recoverItem_wf _ _ (itemBody_wf _ (fun s' => ih.2 0 [] s' rfl) s.pop)
    · intro count acc s hacc
      unfold parseItemF.listLoop
      dsimp only
      split
      · -- lab
        have h1 := ih.1 s
        cases h : parseItemF fuel s with
        | mk r s1 =>
          rw [h] at h1
          cases r with
          | ok child =>
            refine ih.2 _ _ s1 ?_
            simp only [itemsWfS, Bool.and_eq_true]
            exact ⟨h1 child rfl, hacc⟩
          | stop => exact okWf_stop
          | panic => exact okWf_stop
      · -- variable
        split
        · exact ih.2 _ _ _ (by simp only [itemsWfS, Bool.and_eq_true]; exact ⟨rfl, hacc⟩)
        · exact ih.2 _ _ _ (by simpa [itemsWfS] using hacc)
      · -- ellipsis
        split
        · exact okWf_stop
        · split
          · exact ih.2 _ _ _ (by simpa [itemsWfS] using hacc)
          · exact ih.2 _ _ _ (by simpa [itemsWfS] using hacc)
      · exact okWf_ofFactory _ (fun t h => mkList_wfS _ t h (itemsWfS_reverse acc hacc))
      · exact okWf_stop
      · exact okWf_stop

theorem msgItem_wf (s : PS) : OkWf (msgItem s).1 := by
  unfold msgItem
  dsimp only
  split
  · intro t h; simp only [R.ok.injEq] at h; subst h; rfl
  · split
    · exact (parseItem_wf _).1 s
    · exact okWf_stop

theorem checked_item (m m' : Msg) (h : checked m = some m') : m'.item = m.item := by
  unfold checked at h
  split at h
  · injection h with h; rw [← h]
  · cases h

theorem checked_valid (m m' : Msg) (h : checked m = some m') : m'.valid = true := by
  unfold checked at h
  split at h
  · injection h with h; rw [← h]; assumption
  · cases h

theorem finishMsg_wf (name : Bytes) (st fn wb : Int) (dir : Bytes) (item : R Tmpl) (s : PS) (h : OkWf item) (m : Msg)
    (hm : (finishMsg name st fn wb dir item s).1 = some (some m)) : m.valid = true ∧ m.item.wfS = true := by
  unfold finishMsg at hm
  cases item with
  | stop => simp at hm
  | panic => simp at hm
  | ok it =>
    dsimp only at hm
    split at hm
    · simp at hm
    · cases hk : mkMsg name st fn wb dir it with
      | none => simp [hk] at hm
      | some m0 =>
        simp only [hk, Option.some.injEq] at hm
        subst hm
        unfold mkMsg at hk
        refine ⟨checked_valid _ _ hk, ?_⟩
        rw [checked_item _ _ hk]
        exact h it rfl

theorem parseMessage_wf (s : PS) (m : Msg) (hm : (parseMessage s).1 = some (some m)) :
    m.valid = true ∧ m.item.wfS = true := by
  unfold parseMessage at hm
  dsimp only at hm
  split at hm
  · simp at hm
  · exact finishMsg_wf _ _ _ _ _ _ _ (msgItem_wf _) m hm

theorem parseLoop_wf : ∀ (fuel : Nat) (s : PS) (acc : List Msg) (msgs : List Msg) (s' : PS),
    (∀ m ∈ acc, m.valid = true ∧ m.item.wfS = true) → parseLoop fuel s acc = some (msgs, s') →
    ∀ m ∈ msgs, m.valid = true ∧ m.item.wfS = true
  | 0, s, acc, msgs, s', hacc, h => by
    simp only [parseLoop, Option.some.injEq, Prod.mk.injEq] at h
    intro m hm; rw [← h.1] at hm; exact hacc m (List.mem_reverse.mp hm)
  | fuel + 1, s, acc, msgs, s', hacc, h => by
    unfold parseLoop at h
    split at h
    · simp only [Option.some.injEq, Prod.mk.injEq] at h
      intro m hm; rw [← h.1] at hm; exact hacc m (List.mem_reverse.mp hm)
    · split at h
      · simp only [Option.some.injEq, Prod.mk.injEq] at h
        intro m hm; rw [← h.1] at hm; exact hacc m (List.mem_reverse.mp hm)
      · cases h
      · rename_i m1 s1 hpm
        refine parseLoop_wf fuel s1 (m1 :: acc) msgs s' ?_ h
        intro m hm
        rcases List.mem_cons.mp hm with rfl | hm
        · exact parseMessage_wf s m (by rw [hpm])
        · exact hacc m hm

/-- every message the token-level parser returns carries a well-formed item -/
theorem parseToks_wf (toks : List Tok) (msgs : List Msg) (errs warns : List Diag)
    (h : parseToks toks = .done msgs errs warns) : ∀ m ∈ msgs, m.valid = true ∧ m.item.wfS = true := by
  unfold parseToks at h
  split at h
  · cases h
  · rename_i ms s hl
    have := parseLoop_wf _ _ [] ms s (fun m hm => by cases hm) hl
    split at h
    · injection h with h1 _ _; rw [← h1]; exact this
    · injection h with h1 _ _; rw [← h1]; intro m hm; cases hm

/-- **sml.Parse hands out valid messages with well-formed items only**, for every input -/
theorem parse_valid_wf (ual : List Nat) (input : Bytes) (msgs : List Msg) (errs warns : List Diag)
    (h : parse ual input = .done msgs errs warns) : ∀ m ∈ msgs, m.valid = true ∧ m.item.wfS = true :=
  parseToks_wf _ msgs errs warns h

theorem parse_wf (ual : List Nat) (input : Bytes) (msgs : List Msg) (errs warns : List Diag)
    (h : parse ual input = .done msgs errs warns) : ∀ m ∈ msgs, m.item.wfS = true :=
  fun m hm => (parse_valid_wf ual input msgs errs warns h m hm).2

end Secs.Sml
