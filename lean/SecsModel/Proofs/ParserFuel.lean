/-
The fuel the parser model hands to its recursive parts (`toks.length + 1`) is more than enough:
any fuel above the number of tokens gives the same result (every recursive call consumes a token).
-/
import SecsModel.Proofs.NoPanic
namespace Secs
namespace Sml
open Lex

theorem peek_nil_kind (s : PS) (h : s.toks = []) : s.peek.kind = .eof := by
  simp [PS.peek, h, eofClosed]

theorem toks_ne_nil_of_kind (s : PS) (k : Kind) (hk : k ≠ .eof) (h : s.peek.kind = k) : s.toks ≠ [] := by
  intro hn
  rw [peek_nil_kind s hn] at h
  exact hk h.symm

theorem pop_length (s : PS) (h : s.toks ≠ []) : s.pop.toks.length + 1 = s.toks.length := by
  cases ht : s.toks with
  | nil => exact absurd ht h
  | cons t r => simp [ht]

/-- valueTokens: fuel above the number of tokens is never exhausted -/
theorem valueTokens_fuel : ∀ (f1 f2 : Nat) (s : PS), s.toks.length < f1 → s.toks.length < f2 →
    valueTokens f1 s = valueTokens f2 s
  | 0, _, _, h, _ => by omega
  | _ + 1, 0, _, _, h => by omega
  | k1 + 1, k2 + 1, s, h1, h2 => by
    unfold valueTokens
    simp only
    split
    all_goals first
      | rfl
      | (rename_i hk
         have hne : s.toks ≠ [] := by
           intro hn
           rw [peek_nil_kind s hn] at hk
           cases hk
         have hl := pop_length s hne
         rw [valueTokens_fuel k1 k2 s.pop (by omega) (by omega)])

theorem itemBody_congr (ll1 ll2 : PS → R Tmpl × PS) (s : PS)
    (h : ∀ s' : PS, s'.toks.length + 1 ≤ s.toks.length → ll1 s' = ll2 s') : itemBody ll1 s = itemBody ll2 s := by
  unfold itemBody
  dsimp only
  split
  · rfl
  · rename_i hty
    have hne : s.toks ≠ [] := by
      intro hn
      have := peek_nil_kind s hn
      rw [this] at hty
      exact absurd hty (by decide)
    have hl := pop_length s hne
    split
    · rfl
    · have hs := (sizeDecl_suf s.pop).length_le
      rw [h (sizeDecl s.pop).2.2.2 (by omega)]

theorem parseItemF_consumes (fuel : Nat) (s : PS) (hl : s.peek.kind = .lab) :
    (parseItemF (fuel + 1) s).2.toks.length < s.toks.length := by
  have hne := toks_ne_nil_of_kind s _ (by decide) hl
  have hp := pop_length s hne
  unfold parseItemF
  dsimp only
  rw [hl, if_neg (by decide)]
  rw [recoverItem_toks]
  have := (itemBody_suf _ ((parseItem_suf fuel).2 0 []) s.pop).length_le
  omega

theorem parseItem_fuel : ∀ (f1 f2 : Nat),
    (∀ s : PS, s.toks.length < f1 → s.toks.length < f2 → parseItemF f1 s = parseItemF f2 s) ∧
    (∀ (c : Nat) (acc : List GoVal) (s : PS), s.toks.length + 2 ≤ f1 → s.toks.length + 2 ≤ f2 →
      parseItemF.listLoop f1 c acc s = parseItemF.listLoop f2 c acc s)
  | 0, _ => ⟨fun s h => by omega, fun c acc s h => by omega⟩
  | _ + 1, 0 => ⟨fun s _ h => by omega, fun c acc s _ h => by omega⟩
  | k1 + 1, k2 + 1 => by
    have ih := parseItem_fuel k1 k2
    constructor
    · intro s h1 h2
      unfold parseItemF
      dsimp only
      split
      · rfl
      · rename_i hlab
        have hne : s.toks ≠ [] := by
          intro hn
          have := peek_nil_kind s hn
          rw [this] at hlab
          exact absurd hlab (by decide)
        have hp := pop_length s hne
        rw [itemBody_congr (parseItemF.listLoop k1 0 []) (parseItemF.listLoop k2 0 []) s.pop
          (fun s' hs' => ih.2 0 [] s' (by omega) (by omega))]
    · intro c acc s h1 h2
      unfold parseItemF.listLoop
      dsimp only
      split
      · -- lab: the child, then the rest of the list
        rename_i hk
        rw [ih.1 s (by omega) (by omega)]
        cases k2 with
        | zero => omega
        | succ j2 =>
          have hc := parseItemF_consumes j2 s hk
          cases hres : parseItemF (j2 + 1) s with
          | mk r s1 =>
            rw [hres] at hc
            cases r with
            | ok child => exact ih.2 _ _ s1 (by simp at hc; omega) (by simp at hc; omega)
            | stop => rfl
            | panic => rfl
      · -- variable
        rename_i hk
        have hne := toks_ne_nil_of_kind s _ (by decide) hk
        have hp := pop_length s hne
        split
        · exact ih.2 _ _ _ (by simp [PS.err]; omega) (by simp [PS.err]; omega)
        · exact ih.2 _ _ _ (by simp [PS.addName]; omega) (by simp [PS.addName]; omega)
      · -- ellipsis
        rename_i hk
        have hne := toks_ne_nil_of_kind s _ (by decide) hk
        have hp := pop_length s hne
        split
        · rfl
        · split
          · exact ih.2 _ _ _ (by simp [PS.warn, PS.bumpEll]; omega) (by simp [PS.warn, PS.bumpEll]; omega)
          · exact ih.2 _ _ _ (by simp [PS.bumpEll]; omega) (by simp [PS.bumpEll]; omega)
      · rfl
      · rfl
      · rfl

/-- `msgItem` may use any fuel above the number of tokens -/
theorem parseItemF_fuel (f : Nat) (s : PS) (h : s.toks.length < f) :
    parseItemF f s = parseItemF (s.toks.length + 1) s :=
  (parseItem_fuel f (s.toks.length + 1)).1 s h (by omega)

/-- a message that is recognised at all consumes its stream/function token -/
theorem parseMessage_consumes (s : PS) (h : (parseMessage s).1 ≠ none) :
    (parseMessage s).2.toks.length < s.toks.length := by
  unfold parseMessage at h ⊢
  dsimp only at h ⊢
  split
  · rename_i hk
    simp [hk] at h
  · rename_i hk
    have hne : s.resetScope.toks ≠ [] := by
      intro hn
      have := peek_nil_kind s.resetScope hn
      rw [this] at hk
      exact absurd hk (by decide)
    have hp := pop_length s.resetScope hne
    have hs : ∀ (x : (Option (Option Msg)) × PS), x.2.toks <:+ s.resetScope.pop.toks → x.2.toks.length < s.toks.length := by
      intro x hx
      have := hx.length_le
      simp only [resetScope_toks] at hp
      omega
    apply hs
    refine List.IsSuffix.trans (finishMsg_suf _ _ _ _ _ _ _) ?_
    refine List.IsSuffix.trans (msgItem_suf _) ?_
    refine List.IsSuffix.trans (nameOf_suf _) ?_
    refine List.IsSuffix.trans (directionOf_suf _) ?_
    refine List.IsSuffix.trans (waitBitOf_suf _ _) ?_
    rw [streamFunction_toks]
    exact List.suffix_refl _

/-- the message loop may use any fuel above the number of tokens -/
theorem parseLoop_fuel : ∀ (f1 f2 : Nat) (s : PS) (acc : List Msg), s.toks.length < f1 → s.toks.length < f2 →
    parseLoop f1 s acc = parseLoop f2 s acc
  | 0, _, _, _, h, _ => by omega
  | _ + 1, 0, _, _, _, h => by omega
  | k1 + 1, k2 + 1, s, acc, h1, h2 => by
    unfold parseLoop
    split
    · rfl
    · have hc := parseMessage_consumes s
      cases hm : parseMessage s with
      | mk o s1 =>
        rw [hm] at hc
        cases o with
        | none => rfl
        | some om =>
          cases om with
          | none => rfl
          | some m =>
            have := hc (by simp)
            exact parseLoop_fuel k1 k2 s1 (m :: acc) (by simp at this; omega) (by simp at this; omega)

end Sml
end Secs
