/- The encoder produces exactly the encodings the wire-format relation allows (C02). -/
import SecsModel.Proofs.MsgCodec
import SecsModel.Spec.Wire
namespace Secs
open Spec

theorem lenBytes_eq_nLB (n : Nat) : lenBytes n = nLB n := by
  unfold lenBytes nLB
  by_cases h1 : n < 256
  · have : n ≤ 255 := by omega
    simp [h1, this]
  · have h1' : ¬ n ≤ 255 := by omega
    by_cases h2 : n < 65536
    · have : n ≤ 65535 := by omega
      simp [h1, h1', h2, this]
    · have : ¬ n ≤ 65535 := by omega
      simp [h1, h1', h2, this]

theorem withHeader_eq (f : Fmt) (size : Nat) (payload : Bytes) (h : size * f.width ≤ maxByteSize) :
    withHeader f size payload = header f.code (size * f.width) ++ payload := by
  unfold withHeader header
  rw [headerBytes_closed f size h, lenBytes_eq_nLB]

theorem intBytes_eq_twos (w : Nat) (hw : w = 1 ∨ w = 2 ∨ w = 4 ∨ w = 8) (v : Int) : intBytes w v = twos w v := by
  unfold intBytes twos
  have h1 := beEnc_mod w ((v % (2:Int) ^ 64).toNat)
  have h2 := beEnc_mod w ((v % (2:Int) ^ (8 * w)).toNat)
  rw [← h1, ← h2]
  congr 1
  rcases hw with rfl | rfl | rfl | rfl <;> simp <;> omega

theorem flatMap_congr' {α} (f g : α → Bytes) (vs : List α) (h : ∀ v, f v = g v) : vs.flatMap f = vs.flatMap g := by
  have : f = g := funext h
  rw [this]

mutual
/-- soundness: what the encoder writes for a well-formed closed item is a standard encoding -/
theorem enc_sound (t : Tmpl) (hw : t.wf = true) (hc : t.closed = true) : Encodes t t.enc := by
  cases t with
  | empty => simp [Tmpl.closed] at hc
  | asciiVar n a b => simp [Tmpl.closed] at hc
  | list xs =>
    simp only [Tmpl.wf, Bool.and_eq_true, decide_eq_true_eq] at hw
    have hcl : xs.closedAll = true := by simpa [Tmpl.closed] using hc
    obtain ⟨p, hp, hall⟩ := encs_sound xs hw.1.1.2 hcl
    have hmax : xs.len * Fmt.list.width ≤ maxByteSize := by simpa [Fmt.width] using hw.1.1.1
    have he : (Tmpl.list xs).enc = header 0 xs.len ++ p := by
      have := withHeader_eq .list xs.len p hmax
      simp only [Fmt.width, Nat.mul_one, Fmt.code] at this
      rw [← this]
      simp only [Tmpl.enc, withHeader, hp]
      cases headerBytes Fmt.list xs.len <;> rfl
    rw [he]
    exact Encodes.list xs p hall hw.1.1.1
  | ascii s =>
    simp only [Tmpl.wf, Bool.and_eq_true, decide_eq_true_eq, List.all_eq_true] at hw
    have he : (Tmpl.ascii s).enc = header 0o20 s.length ++ s := by
      have := withHeader_eq .ascii s.length s (by simpa [Fmt.width] using hw.1)
      simpa [Fmt.width, Fmt.code, Tmpl.enc] using this
    rw [he]
    exact Encodes.ascii s (fun c hc => by simpa using hw.2 c hc) hw.1
  | binary xs =>
    obtain ⟨vs, rfl⟩ := closed_slots xs (by simpa [Tmpl.closed] using hc)
    simp only [Tmpl.wf, Bool.and_eq_true, decide_eq_true_eq, List.length_map] at hw
    have hv : ∀ v ∈ vs, v < 256 := fun v hv => by simpa using slotsOk_vals _ vs hw.2 v hv
    have he : (Tmpl.binary (vs.map Slot.val)).enc = header 0o10 vs.length ++ vs := by
      have := withHeader_eq .binary vs.length vs (by simpa [Fmt.width] using hw.1)
      simp only [Fmt.width, Nat.mul_one, Fmt.code] at this
      rw [← this]; simp [Tmpl.enc, slotVals_map_val, map_mod_id vs hv]
    rw [he]
    exact Encodes.binary vs hv hw.1
  | boolean xs =>
    obtain ⟨vs, rfl⟩ := closed_slots xs (by simpa [Tmpl.closed] using hc)
    simp only [Tmpl.wf, Bool.and_eq_true, decide_eq_true_eq, List.length_map] at hw
    have he : (Tmpl.boolean (vs.map Slot.val)).enc =
        header 0o11 vs.length ++ vs.map (fun b => if b then 1 else 0) := by
      have := withHeader_eq .boolean vs.length (vs.map (fun b => if b then 1 else 0)) (by simpa [Fmt.width] using hw.1)
      simp only [Fmt.width, Nat.mul_one, Fmt.code] at this
      rw [← this]; simp [Tmpl.enc, slotVals_map_val]
    rw [he]
    exact Encodes.boolean vs hw.1
  | int w xs =>
    obtain ⟨vs, rfl⟩ := closed_slots xs (by simpa [Tmpl.closed] using hc)
    simp only [Tmpl.wf, Bool.and_eq_true, decide_eq_true_eq, List.length_map] at hw
    obtain ⟨⟨hwv, hmax⟩, hok⟩ := hw
    have hr := slotsOk_vals _ vs hok
    have hw4 : w = 1 ∨ w = 2 ∨ w = 4 ∨ w = 8 := by
      simp only [validWidthInt, Bool.or_eq_true, beq_iff_eq] at hwv; omega
    have hf : ∃ f code, intFmt? w = some f ∧ f.width = w ∧ f.code = code ∧ intCode w = some code := by
      rcases hw4 with rfl | rfl | rfl | rfl
      · exact ⟨.i1, _, rfl, rfl, rfl, rfl⟩
      · exact ⟨.i2, _, rfl, rfl, rfl, rfl⟩
      · exact ⟨.i4, _, rfl, rfl, rfl, rfl⟩
      · exact ⟨.i8, _, rfl, rfl, rfl, rfl⟩
    obtain ⟨f, code, hf1, hf2, hf3, hf4⟩ := hf
    have he : (Tmpl.int w (vs.map Slot.val)).enc = header code (vs.length * w) ++ vs.flatMap (twos w) := by
      have := withHeader_eq f vs.length (vs.flatMap (intBytes w)) (by rw [hf2]; exact hmax)
      rw [hf2, hf3] at this
      rw [← flatMap_congr' _ _ vs (intBytes_eq_twos w hw4), ← this]
      simp [Tmpl.enc, slotVals_map_val, hf1]
    rw [he]
    refine Encodes.int w code vs hf4 (fun v hv => ?_) hmax
    have := hr v hv
    simp only [intInRange, Bool.and_eq_true, decide_eq_true_eq] at this
    omega
  | uint w xs =>
    obtain ⟨vs, rfl⟩ := closed_slots xs (by simpa [Tmpl.closed] using hc)
    simp only [Tmpl.wf, Bool.and_eq_true, decide_eq_true_eq, List.length_map] at hw
    obtain ⟨⟨hwv, hmax⟩, hok⟩ := hw
    have hr := slotsOk_vals _ vs hok
    have hw4 : w = 1 ∨ w = 2 ∨ w = 4 ∨ w = 8 := by
      simp only [validWidthInt, Bool.or_eq_true, beq_iff_eq] at hwv; omega
    have hf : ∃ f code, uintFmt? w = some f ∧ f.width = w ∧ f.code = code ∧ uintCode w = some code := by
      rcases hw4 with rfl | rfl | rfl | rfl
      · exact ⟨.u1, _, rfl, rfl, rfl, rfl⟩
      · exact ⟨.u2, _, rfl, rfl, rfl, rfl⟩
      · exact ⟨.u4, _, rfl, rfl, rfl, rfl⟩
      · exact ⟨.u8, _, rfl, rfl, rfl, rfl⟩
    obtain ⟨f, code, hf1, hf2, hf3, hf4⟩ := hf
    have he : (Tmpl.uint w (vs.map Slot.val)).enc = header code (vs.length * w) ++ vs.flatMap (beEnc w) := by
      have := withHeader_eq f vs.length (vs.flatMap (beEnc w)) (by rw [hf2]; exact hmax)
      rw [hf2, hf3] at this
      rw [← this]
      simp [Tmpl.enc, slotVals_map_val, hf1]
    rw [he]
    refine Encodes.uint w code vs hf4 (fun v hv => ?_) hmax
    have := hr v hv
    simp only [uintInRange, decide_eq_true_eq] at this
    have hp : 0 < 2 ^ (8 * w) := Nat.pow_pos (by omega)
    omega
  | float w xs =>
    obtain ⟨vs, rfl⟩ := closed_slots xs (by simpa [Tmpl.closed] using hc)
    simp only [Tmpl.wf, Bool.and_eq_true, decide_eq_true_eq, List.length_map] at hw
    obtain ⟨⟨hwv, hmax⟩, hok⟩ := hw
    have hr := slotsOk_vals _ vs hok
    have hw2 : w = 4 ∨ w = 8 := by
      simp only [validWidthFloat, Bool.or_eq_true, beq_iff_eq] at hwv; omega
    have hf : ∃ f code, floatFmt? w = some f ∧ f.width = w ∧ f.code = code ∧ floatCode w = some code := by
      rcases hw2 with rfl | rfl
      · exact ⟨.f4, _, rfl, rfl, rfl, rfl⟩
      · exact ⟨.f8, _, rfl, rfl, rfl, rfl⟩
    obtain ⟨f, code, hf1, hf2, hf3, hf4⟩ := hf
    have he : (Tmpl.float w (vs.map Slot.val)).enc = header code (vs.length * w) ++ vs.flatMap (beEnc w) := by
      have := withHeader_eq f vs.length (vs.flatMap (beEnc w)) (by rw [hf2]; exact hmax)
      rw [hf2, hf3] at this
      rw [← this]
      simp [Tmpl.enc, slotVals_map_val, hf1]
    rw [he]
    refine Encodes.float w code vs hf4 (fun v hv => ?_) hmax
    have := hr v hv
    simpa using this
theorem encs_sound (xs : Slots) (hw : xs.wfAll = true) (hc : xs.closedAll = true) :
    ∃ p, xs.enc = some p ∧ EncodesAll xs p := by
  cases xs with
  | nil => exact ⟨[], rfl, EncodesAll.nil⟩
  | var n r => simp [Slots.closedAll] at hc
  | item t r =>
    simp only [Slots.wfAll, Bool.and_eq_true] at hw
    simp only [Slots.closedAll, Bool.and_eq_true] at hc
    obtain ⟨p, hp, hall⟩ := encs_sound r hw.2 hc.2
    exact ⟨t.enc ++ p, encs_item t r hw.1 hc.1 p hp, EncodesAll.cons t r _ p (enc_sound t hw.1 hc.1) hall⟩
end

end Secs

namespace Secs
open Spec

theorem listOwnOk_closed : (xs : Slots) → (hc : xs.closedAll = true) → (pos : Nat) → (e : Bool) →
    listOwnOk xs pos e = true
  | .nil, _, _, _ => rfl
  | .var n r, hc, _, _ => by simp [Slots.closedAll] at hc
  | .item t r, hc, pos, e => by
    simp only [Slots.closedAll, Bool.and_eq_true] at hc
    simp only [listOwnOk]
    exact listOwnOk_closed r hc.2 (pos + 1) e

theorem limit_eq : Spec.limit = maxByteSize := rfl

mutual
theorem vars_closed (t : Tmpl) (hc : t.closed = true) : t.vars = [] := by
  cases t with
  | list xs => simpa [Tmpl.vars] using varss_closed xs (by simpa [Tmpl.closed] using hc)
  | ascii s => rfl
  | asciiVar n a b => simp [Tmpl.closed] at hc
  | empty => simp [Tmpl.closed] at hc
  | binary xs => simpa [Tmpl.closed, Tmpl.vars] using hc
  | boolean xs => simpa [Tmpl.closed, Tmpl.vars] using hc
  | int w xs => simpa [Tmpl.closed, Tmpl.vars] using hc
  | uint w xs => simpa [Tmpl.closed, Tmpl.vars] using hc
  | float w xs => simpa [Tmpl.closed, Tmpl.vars] using hc
theorem varss_closed (xs : Slots) (hc : xs.closedAll = true) : xs.vars = [] := by
  cases xs with
  | nil => rfl
  | var n r => simp [Slots.closedAll] at hc
  | item t r =>
    simp only [Slots.closedAll, Bool.and_eq_true] at hc
    have h1 := vars_closed t hc.1
    have h2 := varss_closed r hc.2
    cases t with
    | empty => simp [Tmpl.closed] at hc
    | _ => simp [Slots.vars, h1, h2]
end

theorem slotsOk_map_val {α} (p : α → Bool) (vs : List α) (h : ∀ v ∈ vs, p v = true) :
    slotsOk p (vs.map Slot.val) = true := by
  simp only [slotsOk, Bool.and_eq_true, List.all_eq_true, slotVars_map_val]
  refine ⟨?_, by rfl⟩
  intro s hs
  obtain ⟨v, hv, rfl⟩ := List.mem_map.mp hs
  exact h v hv

mutual
/-- uniqueness: the relation admits only the encoder's output, and only for items the API can
build (well-formed) without variables -/
theorem enc_unique (t : Tmpl) (b : Bytes) (h : Encodes t b) : t.wf = true ∧ t.closed = true ∧ b = t.enc := by
  cases t with
  | empty => cases h
  | asciiVar n x y => cases h
  | list xs =>
    cases h with
    | list _ p hall hlen =>
      rw [limit_eq] at hlen
      obtain ⟨h1, h2, h3⟩ := encs_unique xs p hall
      have hwf : (Tmpl.list xs).wf = true := by
        simp only [Tmpl.wf, Bool.and_eq_true, decide_eq_true_eq]
        exact ⟨⟨⟨hlen, h1⟩, listOwnOk_closed xs h2 0 false⟩, by rw [varss_closed xs h2]; rfl⟩
      have hcl : (Tmpl.list xs).closed = true := by simpa [Tmpl.closed] using h2
      refine ⟨hwf, hcl, ?_⟩
      have hmax : xs.len * Fmt.list.width ≤ maxByteSize := by simpa [Fmt.width] using hlen
      have := withHeader_eq .list xs.len p hmax
      simp only [Fmt.width, Nat.mul_one, Fmt.code] at this
      rw [← this]
      simp only [Tmpl.enc, withHeader, h3]
      cases headerBytes Fmt.list xs.len <;> rfl
  | ascii s =>
    cases h with
    | ascii _ hc hlen =>
      rw [limit_eq] at hlen
      have hwf : (Tmpl.ascii s).wf = true := by
        simp only [Tmpl.wf, Bool.and_eq_true, decide_eq_true_eq, List.all_eq_true]
        exact ⟨hlen, fun c hcm => by simpa using hc c hcm⟩
      refine ⟨hwf, rfl, ?_⟩
      have := withHeader_eq .ascii s.length s (by simpa [Fmt.width] using hlen)
      simpa [Fmt.width, Fmt.code, Tmpl.enc] using this.symm
  | binary xs =>
    cases h with
    | binary vs hv hlen =>
      rw [limit_eq] at hlen
      have hwf : (Tmpl.binary (vs.map Slot.val)).wf = true := by
        simp only [Tmpl.wf, Bool.and_eq_true, decide_eq_true_eq, List.length_map]
        exact ⟨hlen, slotsOk_map_val _ vs (fun v hvm => by simpa using hv v hvm)⟩
      refine ⟨hwf, by simp [Tmpl.closed, slotVars_map_val], ?_⟩
      have := withHeader_eq .binary vs.length vs (by simpa [Fmt.width] using hlen)
      simp only [Fmt.width, Nat.mul_one, Fmt.code] at this
      rw [← this]; simp [Tmpl.enc, slotVals_map_val, map_mod_id vs hv]
  | boolean xs =>
    cases h with
    | boolean vs hlen =>
      rw [limit_eq] at hlen
      have hwf : (Tmpl.boolean (vs.map Slot.val)).wf = true := by
        simp only [Tmpl.wf, Bool.and_eq_true, decide_eq_true_eq, List.length_map]
        exact ⟨hlen, slotsOk_map_val _ vs (fun _ _ => rfl)⟩
      refine ⟨hwf, by simp [Tmpl.closed, slotVars_map_val], ?_⟩
      have := withHeader_eq .boolean vs.length (vs.map (fun b => if b then 1 else 0)) (by simpa [Fmt.width] using hlen)
      simp only [Fmt.width, Nat.mul_one, Fmt.code] at this
      rw [← this]; simp [Tmpl.enc, slotVals_map_val]
  | int w xs =>
    cases h with
    | int _ code vs hcode hr hlen =>
      rw [limit_eq] at hlen
      have hw4 : w = 1 ∨ w = 2 ∨ w = 4 ∨ w = 8 := by
        unfold intCode at hcode; split at hcode <;> simp_all
      have hf : ∃ f, intFmt? w = some f ∧ f.width = w ∧ f.code = code := by
        rcases hw4 with rfl | rfl | rfl | rfl <;> (simp only [intCode, Option.some.injEq] at hcode; subst hcode)
        · exact ⟨.i1, rfl, rfl, rfl⟩
        · exact ⟨.i2, rfl, rfl, rfl⟩
        · exact ⟨.i4, rfl, rfl, rfl⟩
        · exact ⟨.i8, rfl, rfl, rfl⟩
      obtain ⟨f, hf1, hf2, hf3⟩ := hf
      have hwf : (Tmpl.int w (vs.map Slot.val)).wf = true := by
        simp only [Tmpl.wf, Bool.and_eq_true, decide_eq_true_eq, List.length_map]
        refine ⟨⟨by rcases hw4 with rfl | rfl | rfl | rfl <;> rfl, hlen⟩, slotsOk_map_val _ vs (fun v hvm => ?_)⟩
        have := hr v hvm
        simp only [intInRange, Bool.and_eq_true, decide_eq_true_eq]
        omega
      refine ⟨hwf, by simp [Tmpl.closed, slotVars_map_val], ?_⟩
      have := withHeader_eq f vs.length (vs.flatMap (intBytes w)) (by rw [hf2]; exact hlen)
      rw [hf2, hf3] at this
      rw [← flatMap_congr' _ _ vs (intBytes_eq_twos w hw4), ← this]
      simp [Tmpl.enc, slotVals_map_val, hf1]
  | uint w xs =>
    cases h with
    | uint _ code vs hcode hr hlen =>
      rw [limit_eq] at hlen
      have hw4 : w = 1 ∨ w = 2 ∨ w = 4 ∨ w = 8 := by
        unfold uintCode at hcode; split at hcode <;> simp_all
      have hf : ∃ f, uintFmt? w = some f ∧ f.width = w ∧ f.code = code := by
        rcases hw4 with rfl | rfl | rfl | rfl <;> (simp only [uintCode, Option.some.injEq] at hcode; subst hcode)
        · exact ⟨.u1, rfl, rfl, rfl⟩
        · exact ⟨.u2, rfl, rfl, rfl⟩
        · exact ⟨.u4, rfl, rfl, rfl⟩
        · exact ⟨.u8, rfl, rfl, rfl⟩
      obtain ⟨f, hf1, hf2, hf3⟩ := hf
      have hwf : (Tmpl.uint w (vs.map Slot.val)).wf = true := by
        simp only [Tmpl.wf, Bool.and_eq_true, decide_eq_true_eq, List.length_map]
        refine ⟨⟨by rcases hw4 with rfl | rfl | rfl | rfl <;> rfl, hlen⟩, slotsOk_map_val _ vs (fun v hvm => ?_)⟩
        have := hr v hvm
        simp only [uintInRange, decide_eq_true_eq]
        omega
      refine ⟨hwf, by simp [Tmpl.closed, slotVars_map_val], ?_⟩
      have := withHeader_eq f vs.length (vs.flatMap (beEnc w)) (by rw [hf2]; exact hlen)
      rw [hf2, hf3] at this
      rw [← this]
      simp [Tmpl.enc, slotVals_map_val, hf1]
  | float w xs =>
    cases h with
    | float _ code vs hcode hr hlen =>
      rw [limit_eq] at hlen
      have hw2 : w = 4 ∨ w = 8 := by
        unfold floatCode at hcode; split at hcode <;> simp_all
      have hf : ∃ f, floatFmt? w = some f ∧ f.width = w ∧ f.code = code := by
        rcases hw2 with rfl | rfl <;> (simp only [floatCode, Option.some.injEq] at hcode; subst hcode)
        · exact ⟨.f4, rfl, rfl, rfl⟩
        · exact ⟨.f8, rfl, rfl, rfl⟩
      obtain ⟨f, hf1, hf2, hf3⟩ := hf
      have hwf : (Tmpl.float w (vs.map Slot.val)).wf = true := by
        simp only [Tmpl.wf, Bool.and_eq_true, decide_eq_true_eq, List.length_map]
        refine ⟨⟨by rcases hw2 with rfl | rfl <;> rfl, hlen⟩, slotsOk_map_val _ vs (fun v hvm => ?_)⟩
        have := hr v hvm
        simp [this.1, this.2]
      refine ⟨hwf, by simp [Tmpl.closed, slotVars_map_val], ?_⟩
      have := withHeader_eq f vs.length (vs.flatMap (beEnc w)) (by rw [hf2]; exact hlen)
      rw [hf2, hf3] at this
      rw [← this]
      simp [Tmpl.enc, slotVals_map_val, hf1]
theorem encs_unique (xs : Slots) (p : Bytes) (h : EncodesAll xs p) :
    xs.wfAll = true ∧ xs.closedAll = true ∧ xs.enc = some p := by
  cases xs with
  | nil => cases h; exact ⟨rfl, rfl, rfl⟩
  | var n r => cases h
  | item t r =>
    cases h with
    | cons _ _ b q hb hq =>
      obtain ⟨h1, h2, h3⟩ := enc_unique t b hb
      obtain ⟨g1, g2, g3⟩ := encs_unique r q hq
      refine ⟨by simp [Slots.wfAll, h1, g1], by simp [Slots.closedAll, h2, g2], ?_⟩
      rw [h3]
      exact encs_item t r h1 h2 q g3
end

end Secs
