/-
API closure: well-formedness is an invariant of every producer of item trees.

`Tmpl.wfS` is `Tmpl.wf` without the value-range clause of float slots (what `floatStore` hands
out is a property of the float library, not of this code): sizes within the limit, widths valid,
integer/binary values in range, every variable name valid, an ellipsis only as a list's own slot,
not first and at most one per list, and NO NAME TWICE ANYWHERE IN THE TREE.

Proved here, for trees of any depth and any number of (nested) ellipses:
 * every factory hands out a `wfS` tree (`mkInt_wfS` … `mkList_wfS`);
 * one-node fills keep it (`fillLeaf_wfS`);
 * ellipsis expansion keeps it: `emitSlots_wfS`, `emitRepeat_wfS`, `fillEllT_wfS`;
 * `fill_wfS` / `Tmpl.fill_wfS`: FillVariables on a `wfS` tree with `wfS` fill-in items returns a
   `wfS` tree, whatever the table holds — so after any fill and any expansion no name occurs
   twice (`fill_names_unique`);
 * for float-free trees `wfS` is `wf` (`wf_of_wfS`), and `wf → wfS` always (`wfS_of_wf`).
-/
import SecsModel.Model.Fill
namespace Secs

mutual
def Tmpl.wfS : Tmpl → Bool
  | .list xs => xs.len ≤ maxByteSize && xs.wfSAll && listOwnOk xs 0 false && nodupNames xs.vars
  | .ascii s => s.length ≤ maxByteSize && s.all (· < 128)
  | .asciiVar n mn mx => isValidVarName n && 0 ≤ mn && -1 ≤ mx && (mx == -1 || mn ≤ mx)
  | .binary xs => xs.length ≤ maxByteSize && slotsOk (· < 256) xs
  | .boolean xs => xs.length ≤ maxByteSize && slotsOk (fun _ => true) xs
  | .int w xs => validWidthInt w && xs.length * w ≤ maxByteSize && slotsOk (intInRange w) xs
  | .uint w xs => validWidthInt w && xs.length * w ≤ maxByteSize && slotsOk (uintInRange w) xs
  | .float w xs => validWidthFloat w && xs.length * w ≤ maxByteSize && slotsOk (fun _ => true) xs
  | .empty => true
def Slots.wfSAll : Slots → Bool
  | .nil => true
  | .item t r => t.wfS && r.wfSAll
  | .var _ r => r.wfSAll
end

-- no float item anywhere
mutual
def Tmpl.floatFree : Tmpl → Bool
  | .list xs => xs.floatFreeAll
  | .float _ _ => false
  | _ => true
def Slots.floatFreeAll : Slots → Bool
  | .nil => true
  | .item t r => t.floatFree && r.floatFreeAll
  | .var _ r => r.floatFreeAll
end

theorem slotsOk_weaken {α} (p : α → Bool) (xs : List (Slot α)) (h : slotsOk p xs = true) :
    slotsOk (fun _ => true) xs = true := by
  unfold slotsOk at *
  simp only [Bool.and_eq_true, List.all_eq_true] at *
  refine ⟨?_, h.2⟩
  intro s hs
  have := h.1 s hs
  cases s with
  | val a => rfl
  | var n => exact this

mutual
theorem wfS_of_wf : ∀ t : Tmpl, t.wf = true → t.wfS = true
  | .list xs, h => by
    simp only [Tmpl.wf, Tmpl.wfS, Bool.and_eq_true] at *
    exact ⟨⟨⟨h.1.1.1, wfSAll_of_wfAll xs h.1.1.2⟩, h.1.2⟩, h.2⟩
  | .ascii _, h => h
  | .asciiVar _ _ _, h => h
  | .binary _, h => h
  | .boolean _, h => h
  | .int _ _, h => h
  | .uint _ _, h => h
  | .float w xs, h => by
    simp only [Tmpl.wf, Tmpl.wfS, Bool.and_eq_true] at *
    exact ⟨h.1, slotsOk_weaken _ xs h.2⟩
  | .empty, _ => rfl
theorem wfSAll_of_wfAll : ∀ xs : Slots, xs.wfAll = true → xs.wfSAll = true
  | .nil, _ => rfl
  | .item t r, h => by
    simp only [Slots.wfAll, Slots.wfSAll, Bool.and_eq_true] at *
    exact ⟨wfS_of_wf t h.1, wfSAll_of_wfAll r h.2⟩
  | .var _ r, h => by
    simp only [Slots.wfAll, Slots.wfSAll] at *
    exact wfSAll_of_wfAll r h
end

mutual
theorem wf_of_wfS : ∀ t : Tmpl, t.wfS = true → t.floatFree = true → t.wf = true
  | .list xs, h, hf => by
    simp only [Tmpl.wf, Tmpl.wfS, Bool.and_eq_true, Tmpl.floatFree] at *
    exact ⟨⟨⟨h.1.1.1, wfAll_of_wfSAll xs h.1.1.2 hf⟩, h.1.2⟩, h.2⟩
  | .ascii _, h, _ => h
  | .asciiVar _ _ _, h, _ => h
  | .binary _, h, _ => h
  | .boolean _, h, _ => h
  | .int _ _, h, _ => h
  | .uint _ _, h, _ => h
  | .float _ _, _, hf => by simp [Tmpl.floatFree] at hf
  | .empty, _, _ => rfl
theorem wfAll_of_wfSAll : ∀ xs : Slots, xs.wfSAll = true → xs.floatFreeAll = true → xs.wfAll = true
  | .nil, _, _ => rfl
  | .item t r, h, hf => by
    simp only [Slots.wfAll, Slots.wfSAll, Slots.floatFreeAll, Bool.and_eq_true] at *
    exact ⟨wf_of_wfS t h.1 hf.1, wfAll_of_wfSAll r h.2 hf.2⟩
  | .var _ r, h, hf => by
    simp only [Slots.wfAll, Slots.wfSAll, Slots.floatFreeAll] at *
    exact wfAll_of_wfSAll r h hf
end

/-- no variable name occurs twice anywhere in a `wfS` tree -/
theorem wfS_vars_nodup (t : Tmpl) (hw : t.wfS = true) : nodupNames t.vars = true := by
  cases t with
  | list xs => simp only [Tmpl.wfS, Bool.and_eq_true] at hw; exact hw.2
  | ascii s => rfl
  | asciiVar n a b => rfl
  | empty => rfl
  | binary xs => simp only [Tmpl.wfS, slotsOk, Bool.and_eq_true] at hw; exact hw.2.2
  | boolean xs => simp only [Tmpl.wfS, slotsOk, Bool.and_eq_true] at hw; exact hw.2.2
  | int w xs => simp only [Tmpl.wfS, slotsOk, Bool.and_eq_true] at hw; exact hw.2.2
  | uint w xs => simp only [Tmpl.wfS, slotsOk, Bool.and_eq_true] at hw; exact hw.2.2
  | float w xs => simp only [Tmpl.wfS, slotsOk, Bool.and_eq_true] at hw; exact hw.2.2

/-! ### the factories -/

theorem mkSlots_len_eq {α} (conv : GoVal → Option α) : ∀ (args : List GoVal) (xs : List (Slot α)),
    mkSlots conv args = some xs → xs.length = args.length
  | [], xs, h => by simp [mkSlots] at h; subst h; rfl
  | g :: r, xs, h => by
    have step : ∀ (o : Option (List (Slot α))) (s : Slot α), o.map (s :: ·) = some xs →
        (∀ ys, o = some ys → ys.length = r.length) → xs.length = (g :: r).length := by
      intro o s ho hr
      cases o with
      | none => simp at ho
      | some ys => simp at ho; subst ho; simp [hr ys rfl]
    cases g with
    | str s =>
      simp only [mkSlots] at h
      split at h
      · exact step _ _ h (fun ys hy => mkSlots_len_eq conv r ys hy)
      · exact step _ _ h (fun ys hy => mkSlots_len_eq conv r ys hy)
    | sint k v | uint k v | f32 b | f64 b | bool b | item t | other =>
      simp only [mkSlots] at h
      split at h
      · exact step _ _ h (fun ys hy => mkSlots_len_eq conv r ys hy)
      · cases h

theorem intWidth_of_valid (w : Nat) (h : validWidthInt w = true) :
    optWidth (intFmt? w) = w ∧ optWidth (uintFmt? w) = w := by
  simp only [validWidthInt, Bool.or_eq_true, beq_iff_eq] at h
  rcases h with ((h | h) | h) | h <;> subst h <;> exact ⟨rfl, rfl⟩

theorem floatWidth_of_valid (w : Nat) (h : validWidthFloat w = true) : optWidth (floatFmt? w) = w := by
  simp only [validWidthFloat, Bool.or_eq_true, beq_iff_eq] at h
  rcases h with h | h <;> subst h <;> rfl

theorem mkInt_wfS (w : Nat) (args : List GoVal) (t : Tmpl) (h : mkInt w args = some t) : t.wfS = true := by
  unfold mkInt at h
  simp only [] at h
  split at h
  · cases h
  · rename_i hsz
    cases hs : mkSlots convInt args with
    | none => simp [hs] at h
    | some xs =>
      simp only [hs] at h
      split at h
      · rename_i hok
        injection h with h; subst h
        simp only [Bool.and_eq_true] at hok
        have hl := mkSlots_len_eq _ _ _ hs
        have hw := (intWidth_of_valid w hok.1).1
        simp only [Tmpl.wfS, Bool.and_eq_true, decide_eq_true_eq]
        refine ⟨⟨hok.1, ?_⟩, hok.2⟩
        rw [hl]; rw [hw] at hsz; omega
      · cases h

theorem mkUint_wfS (w : Nat) (args : List GoVal) (t : Tmpl) (h : mkUint w args = some t) : t.wfS = true := by
  unfold mkUint at h
  simp only [] at h
  split at h
  · cases h
  · rename_i hsz
    cases hs : mkSlots convUint args with
    | none => simp [hs] at h
    | some xs =>
      simp only [hs] at h
      split at h
      · rename_i hok
        injection h with h; subst h
        simp only [Bool.and_eq_true] at hok
        have hl := mkSlots_len_eq _ _ _ hs
        have hw := (intWidth_of_valid w hok.1).2
        simp only [Tmpl.wfS, Bool.and_eq_true, decide_eq_true_eq]
        refine ⟨⟨hok.1, ?_⟩, hok.2⟩
        rw [hl]; rw [hw] at hsz; omega
      · cases h

theorem mkBoolean_wfS (args : List GoVal) (t : Tmpl) (h : mkBoolean args = some t) : t.wfS = true := by
  unfold mkBoolean at h
  split at h
  · cases h
  · rename_i hsz
    cases hs : mkSlots convBool args with
    | none => simp [hs] at h
    | some xs =>
      simp only [hs] at h
      split at h
      · rename_i hok
        injection h with h; subst h
        have hl := mkSlots_len_eq _ _ _ hs
        simp only [Tmpl.wfS, Bool.and_eq_true, decide_eq_true_eq]
        exact ⟨by rw [hl]; omega, hok⟩
      · cases h

theorem mkFloat_wfS (w : Nat) (args : List GoVal) (t : Tmpl) (h : mkFloat w args = some t) : t.wfS = true := by
  unfold mkFloat at h
  simp only [] at h
  split at h
  · cases h
  · rename_i hsz
    split at h
    · cases h
    · rename_i hw
      cases hs : mkSlots (fun g => (convFloat64 g).bind (fun b => some (floatStore w b))) args with
      | none => simp [hs] at h
      | some xs =>
        simp only [hs] at h
        split at h
        · cases h
        · split at h
          · rename_i hok
            injection h with h; subst h
            have hl := mkSlots_len_eq _ _ _ hs
            have hv : validWidthFloat w = true := by simpa using hw
            have hwd := floatWidth_of_valid w hv
            simp only [Tmpl.wfS, Bool.and_eq_true, decide_eq_true_eq, List.length_map]
            refine ⟨⟨hv, ?_⟩, hok⟩
            rw [hl]; rw [hwd] at hsz; omega
          · cases h

theorem slotVars_map_keep {α β} (f : Slot α → Slot β) (hval : ∀ v, ∃ v', f (.val v) = .val v') (hvar : ∀ n, f (.var n) = .var n)
    (ys : List (Slot α)) : slotVars (ys.map f) = slotVars ys := by
  induction ys with
  | nil => rfl
  | cons s r ih =>
    cases s with
    | val v => obtain ⟨v', hv⟩ := hval v; simp [slotVars, hv, ih]
    | var n => simp [slotVars, hvar n, ih]

theorem mkBinary_wfS (args : List GoVal) (t : Tmpl) (h : mkBinary args = some t) : t.wfS = true := by
  unfold mkBinary at h
  split at h
  · cases h
  · rename_i hsz
    cases hs : mkSlots convBinary args with
    | none => simp [hs] at h
    | some xs =>
      simp only [hs] at h
      split at h
      · cases h
      · split at h
        · rename_i hok
          injection h with h; subst h
          have hl := mkSlots_len_eq _ _ _ hs
          simp only [Tmpl.wfS, Bool.and_eq_true, decide_eq_true_eq, List.length_map]
          refine ⟨by rw [hl]; omega, ?_⟩
          unfold slotsOk at hok ⊢
          simp only [Bool.and_eq_true, List.all_eq_true] at hok ⊢
          refine ⟨?_, (congrArg nodupNames (slotVars_map_keep _ (fun v => ⟨v.toNat, rfl⟩) (fun _ => rfl) _)).trans hok.2⟩
          intro s hs'
          obtain ⟨s0, hs0, rfl⟩ := List.mem_map.mp hs'
          have := hok.1 s0 hs0
          cases s0 with
          | val v =>
            simp only [Bool.and_eq_true, decide_eq_true_eq] at this ⊢
            omega
          | var n => exact this
        · cases h

theorem mkAscii_wfS (s : Bytes) (t : Tmpl) (h : mkAscii s = some t) : t.wfS = true := by
  unfold mkAscii at h
  split at h
  · cases h
  · rename_i hsz
    split at h
    · rename_i hall
      injection h with h; subst h
      simp only [Tmpl.wfS, Bool.and_eq_true, decide_eq_true_eq]
      exact ⟨by omega, hall⟩
    · cases h

theorem mkAsciiVar_wfS (n : Name) (mn mx : Int) (t : Tmpl) (h : mkAsciiVar n mn mx = some t) : t.wfS = true := by
  unfold mkAsciiVar at h
  split at h
  · cases h
  · rename_i h1
    split at h
    · cases h
    · rename_i h2
      split at h
      · cases h
      · rename_i h3
        injection h with h; subst h
        simp only [Bool.not_eq_true', Bool.not_eq_false] at h1
        simp only [Bool.or_eq_true, decide_eq_true_eq, not_or, Int.not_lt] at h2
        simp only [Bool.and_eq_true, bne_iff_ne, ne_eq, decide_eq_true_eq, not_and, Int.not_lt] at h3
        simp only [Tmpl.wfS, Bool.and_eq_true, decide_eq_true_eq, Bool.or_eq_true, beq_iff_eq]
        refine ⟨⟨⟨by simpa using h1, h2.1⟩, h2.2⟩, ?_⟩
        by_cases hm : mx = -1
        · left; exact hm
        · right; exact h3 hm

/-- the items among the arguments of a list factory -/
def itemsWfS : List GoVal → Bool
  | [] => true
  | .item t :: r => t.wfS && itemsWfS r
  | _ :: r => itemsWfS r

theorem itemsWfS_append (a b : List GoVal) : itemsWfS (a ++ b) = (itemsWfS a && itemsWfS b) := by
  induction a with
  | nil => simp [itemsWfS]
  | cons g r ih => cases g <;> simp [itemsWfS, ih, Bool.and_assoc]

theorem mkListSlots_wfS : ∀ (args : List GoVal) (xs : Slots), mkListSlots args = some xs → itemsWfS args = true →
    xs.wfSAll = true ∧ xs.len = args.length
  | [], xs, h, _ => by simp [mkListSlots] at h; subst h; exact ⟨rfl, rfl⟩
  | g :: r, xs, h, hi => by
    cases g with
    | item t =>
      simp only [mkListSlots] at h
      cases hr : mkListSlots r with
      | none => simp [hr] at h
      | some ys =>
        simp [hr] at h; subst h
        simp only [itemsWfS, Bool.and_eq_true] at hi
        have := mkListSlots_wfS r ys hr hi.2
        simp only [Slots.wfSAll, Slots.len, Bool.and_eq_true, List.length_cons]
        exact ⟨⟨hi.1, this.1⟩, by omega⟩
    | str n =>
      simp only [mkListSlots] at h
      cases hr : mkListSlots r with
      | none => simp [hr] at h
      | some ys =>
        simp [hr] at h; subst h
        simp only [itemsWfS] at hi
        have := mkListSlots_wfS r ys hr hi
        simp only [Slots.wfSAll, Slots.len, List.length_cons]
        exact ⟨this.1, by omega⟩
    | sint k v | uint k v | f32 b | f64 b | bool b | other => simp [mkListSlots] at h

/-- the list factory on well-formed items hands out a well-formed list -/
theorem mkList_wfS (args : List GoVal) (t : Tmpl) (h : mkList args = some t) (hi : itemsWfS args = true) :
    t.wfS = true := by
  unfold mkList at h
  split at h
  · cases h
  · rename_i hsz
    cases hs : mkListSlots args with
    | none => simp [hs] at h
    | some xs =>
      simp only [hs] at h
      split at h
      · rename_i hok
        injection h with h; subst h
        simp only [Bool.and_eq_true] at hok
        have := mkListSlots_wfS args xs hs hi
        simp only [Tmpl.wfS, Bool.and_eq_true, decide_eq_true_eq]
        exact ⟨⟨⟨by rw [this.2]; omega, this.1⟩, hok.1⟩, hok.2⟩
      · cases h

/-! ### one-node fills -/

theorem fillLeaf_wfS (t t' : Tmpl) (env : Env) (hw : t.wfS = true) (h : fillLeaf t env = some t') : t'.wfS = true := by
  cases t with
  | list xs => simp [fillLeaf] at h
  | ascii s => simp [fillLeaf] at h; subst h; exact hw
  | empty => simp [fillLeaf] at h; subst h; rfl
  | asciiVar n mn mx =>
    simp only [fillLeaf] at h
    split at h
    · injection h with h; subst h; exact hw
    · split at h
      · cases h
      · split at h
        · cases h
        · exact mkAscii_wfS _ _ h
    · cases h
  | binary xs =>
    simp only [fillLeaf] at h
    split at h
    · exact mkBinary_wfS _ _ h
    · injection h with h; subst h; exact hw
  | boolean xs =>
    simp only [fillLeaf] at h
    split at h
    · exact mkBoolean_wfS _ _ h
    · injection h with h; subst h; exact hw
  | int w xs =>
    simp only [fillLeaf] at h
    split at h
    · exact mkInt_wfS _ _ _ h
    · injection h with h; subst h; exact hw
  | uint w xs =>
    simp only [fillLeaf] at h
    split at h
    · exact mkUint_wfS _ _ _ h
    · injection h with h; subst h; exact hw
  | float w xs =>
    simp only [fillLeaf] at h
    split at h
    · exact mkFloat_wfS _ _ _ h
    · injection h with h; subst h; exact hw

/-! ### ellipsis expansion -/

/-- a child filler that keeps well-formedness -/
def ChildOk (child : Tmpl → FillSt → Option (Tmpl × FillSt)) : Prop :=
  ∀ t st t' st', t.wfS = true → child t st = some (t', st') → t'.wfS = true

theorem emitSlots_wfS (child : Tmpl → FillSt → Option (Tmpl × FillSt)) (hc : ChildOk child) (multiple : Bool) :
    ∀ (xs : Slots) (st : FillSt) (a : List GoVal) (st' : FillSt), xs.wfSAll = true →
      emitSlots child multiple xs st = some (a, st') → itemsWfS a = true
  | .nil, st, a, st', _, h => by simp [emitSlots] at h; rw [h.1]; rfl
  | .var n r, st, a, st', hw, h => by
    simp only [emitSlots] at h
    cases hr : emitSlots child multiple r (newName multiple st n).2 with
    | none => simp [hr] at h
    | some p =>
      obtain ⟨b, s⟩ := p
      simp only [hr, Option.map_some, Option.some.injEq, Prod.mk.injEq] at h
      rw [← h.1]
      simp only [itemsWfS]
      exact emitSlots_wfS child hc multiple r _ b s (by simpa [Slots.wfSAll] using hw) hr
  | .item t r, st, a, st', hw, h => by
    simp only [Slots.wfSAll, Bool.and_eq_true] at hw
    simp only [emitSlots] at h
    split at h
    · cases h
    · rename_i g st1 hhere
      cases hr : emitSlots child multiple r st1 with
      | none => simp [hr] at h
      | some p =>
        obtain ⟨b, s⟩ := p
        simp only [hr, Option.map_some, Option.some.injEq, Prod.mk.injEq] at h
        rw [← h.1]
        have hrest := emitSlots_wfS child hc multiple r _ b s hw.2 hr
        -- the argument made from this slot
        have hg : itemsWfS [g] = true := by
          cases t with
          | list ys =>
            simp only [] at hhere
            cases hch : child (.list ys) st with
            | none => simp [hch] at hhere
            | some q =>
              obtain ⟨t', s'⟩ := q
              simp only [hch, Option.map_some, Option.some.injEq, Prod.mk.injEq] at hhere
              rw [← hhere.1]
              simp only [itemsWfS, Bool.and_true]
              exact hc _ _ _ _ hw.1 hch
          | empty =>
            simp only [Option.some.injEq, Prod.mk.injEq] at hhere
            rw [← hhere.1]; rfl
          | asciiVar n mn mx =>
            simp only [] at hhere
            cases hmk : mkAsciiVar (newName multiple st n).1 mn mx with
            | none => simp [hmk] at hhere
            | some t' =>
              simp only [hmk, Option.map_some, Option.some.injEq, Prod.mk.injEq] at hhere
              rw [← hhere.1]
              simp only [itemsWfS, Bool.and_true]
              exact mkAsciiVar_wfS _ _ _ _ hmk
          | ascii s0 =>
            simp only [] at hhere
            split at hhere
            · simp only [Option.some.injEq, Prod.mk.injEq] at hhere
              rw [← hhere.1]; simp only [itemsWfS, Bool.and_true]; exact hw.1
            · cases hfl : fillLeaf (.ascii s0) (renameAll multiple (Tmpl.ascii s0).vars st).1 with
              | none => simp [hfl] at hhere
              | some t' =>
                simp only [hfl, Option.map_some, Option.some.injEq, Prod.mk.injEq] at hhere
                rw [← hhere.1]; simp only [itemsWfS, Bool.and_true]
                exact fillLeaf_wfS _ _ _ hw.1 hfl
          | binary ys =>
            simp only [] at hhere
            split at hhere
            · simp only [Option.some.injEq, Prod.mk.injEq] at hhere
              rw [← hhere.1]; simp only [itemsWfS, Bool.and_true]; exact hw.1
            · cases hfl : fillLeaf (.binary ys) (renameAll multiple (Tmpl.binary ys).vars st).1 with
              | none => simp [hfl] at hhere
              | some t' =>
                simp only [hfl, Option.map_some, Option.some.injEq, Prod.mk.injEq] at hhere
                rw [← hhere.1]; simp only [itemsWfS, Bool.and_true]
                exact fillLeaf_wfS _ _ _ hw.1 hfl
          | boolean ys =>
            simp only [] at hhere
            split at hhere
            · simp only [Option.some.injEq, Prod.mk.injEq] at hhere
              rw [← hhere.1]; simp only [itemsWfS, Bool.and_true]; exact hw.1
            · cases hfl : fillLeaf (.boolean ys) (renameAll multiple (Tmpl.boolean ys).vars st).1 with
              | none => simp [hfl] at hhere
              | some t' =>
                simp only [hfl, Option.map_some, Option.some.injEq, Prod.mk.injEq] at hhere
                rw [← hhere.1]; simp only [itemsWfS, Bool.and_true]
                exact fillLeaf_wfS _ _ _ hw.1 hfl
          | int w ys =>
            simp only [] at hhere
            split at hhere
            · simp only [Option.some.injEq, Prod.mk.injEq] at hhere
              rw [← hhere.1]; simp only [itemsWfS, Bool.and_true]; exact hw.1
            · cases hfl : fillLeaf (.int w ys) (renameAll multiple (Tmpl.int w ys).vars st).1 with
              | none => simp [hfl] at hhere
              | some t' =>
                simp only [hfl, Option.map_some, Option.some.injEq, Prod.mk.injEq] at hhere
                rw [← hhere.1]; simp only [itemsWfS, Bool.and_true]
                exact fillLeaf_wfS _ _ _ hw.1 hfl
          | uint w ys =>
            simp only [] at hhere
            split at hhere
            · simp only [Option.some.injEq, Prod.mk.injEq] at hhere
              rw [← hhere.1]; simp only [itemsWfS, Bool.and_true]; exact hw.1
            · cases hfl : fillLeaf (.uint w ys) (renameAll multiple (Tmpl.uint w ys).vars st).1 with
              | none => simp [hfl] at hhere
              | some t' =>
                simp only [hfl, Option.map_some, Option.some.injEq, Prod.mk.injEq] at hhere
                rw [← hhere.1]; simp only [itemsWfS, Bool.and_true]
                exact fillLeaf_wfS _ _ _ hw.1 hfl
          | float w ys =>
            simp only [] at hhere
            split at hhere
            · simp only [Option.some.injEq, Prod.mk.injEq] at hhere
              rw [← hhere.1]; simp only [itemsWfS, Bool.and_true]; exact hw.1
            · cases hfl : fillLeaf (.float w ys) (renameAll multiple (Tmpl.float w ys).vars st).1 with
              | none => simp [hfl] at hhere
              | some t' =>
                simp only [hfl, Option.map_some, Option.some.injEq, Prod.mk.injEq] at hhere
                rw [← hhere.1]; simp only [itemsWfS, Bool.and_true]
                exact fillLeaf_wfS _ _ _ hw.1 hfl
        have : itemsWfS (g :: b) = itemsWfS ([g] ++ b) := rfl
        rw [this, itemsWfS_append, hg, hrest]; rfl

theorem emitRepeat_wfS (child : Tmpl → FillSt → Option (Tmpl × FillSt)) (hc : ChildOk child) (multiple : Bool)
    (pre : Slots) (hw : pre.wfSAll = true) (outer : List Nat) :
    ∀ (reps j count : Nat) (a : List GoVal) (c : Nat),
      emitRepeat child multiple pre outer reps j count = some (a, c) → itemsWfS a = true
  | 0, j, count, a, c, h => by simp [emitRepeat] at h; rw [h.1]; rfl
  | reps + 1, j, count, a, c, h => by
    simp only [emitRepeat] at h
    cases he : emitSlots child multiple pre ⟨outer ++ [j], count⟩ with
    | none => simp [he] at h
    | some p =>
      obtain ⟨a1, st1⟩ := p
      simp only [he] at h
      cases hr : emitRepeat child multiple pre outer reps (j + 1) st1.count with
      | none => simp [hr] at h
      | some q =>
        obtain ⟨b, c'⟩ := q
        simp only [hr, Option.map_some, Option.some.injEq, Prod.mk.injEq] at h
        rw [← h.1, itemsWfS_append, emitSlots_wfS child hc multiple pre _ a1 st1 hw he,
          emitRepeat_wfS child hc multiple pre hw outer reps (j + 1) st1.count b c' hr]
        rfl

theorem take_wfSAll : ∀ (k : Nat) (xs : Slots), xs.wfSAll = true → (Slots.take k xs).wfSAll = true
  | 0, _, _ => by cases ‹Slots› <;> rfl
  | _ + 1, .nil, _ => rfl
  | k + 1, .item t r, h => by
    simp only [Slots.take, Slots.wfSAll, Bool.and_eq_true] at *
    exact ⟨h.1, take_wfSAll k r h.2⟩
  | k + 1, .var n r, h => by
    simp only [Slots.take, Slots.wfSAll] at *
    exact take_wfSAll k r h

theorem drop_wfSAll : ∀ (k : Nat) (xs : Slots), xs.wfSAll = true → (Slots.drop k xs).wfSAll = true
  | 0, xs, h => by cases xs <;> simpa [Slots.drop] using h
  | _ + 1, .nil, _ => rfl
  | k + 1, .item t r, h => by
    simp only [Slots.wfSAll, Bool.and_eq_true] at h
    simp only [Slots.drop]
    exact drop_wfSAll k r h.2
  | k + 1, .var n r, h => by
    simp only [Slots.wfSAll] at h
    simp only [Slots.drop]
    exact drop_wfSAll k r h

/-- **ellipsis expansion keeps well-formedness**, at any nesting depth -/
theorem fillEllT_wfS : ∀ (fuel : Nat) (ev : Env) (multiple : Bool) (t : Tmpl) (st : FillSt) (t' : Tmpl) (st' : FillSt),
    t.wfS = true → fillEllT fuel ev multiple t st = some (t', st') → t'.wfS = true
  | 0, _, _, _, _, _, _, _, h => by simp [fillEllT] at h
  | fuel + 1, ev, multiple, t, st, t', st', hw, h => by
    have hc : ChildOk (fillEllT fuel ev multiple) :=
      fun t st t' st' hw h => fillEllT_wfS fuel ev multiple t st t' st' hw h
    cases t with
    | list xs =>
      have hxs : xs.wfSAll = true := by simp only [Tmpl.wfS, Bool.and_eq_true] at hw; exact hw.1.1.2
      simp only [fillEllT] at h
      split at h
      · cases h
      · rename_i a st2 hargs
        cases hm : mkList a with
        | none => simp [hm] at h
        | some tl =>
          simp only [hm, Option.map_some, Option.some.injEq, Prod.mk.injEq] at h
          rw [← h.1]
          refine mkList_wfS a tl hm ?_
          -- the arguments, by the way they were produced
          split at hargs
          · exact emitSlots_wfS _ hc multiple xs st a st2 hxs hargs
          · rename_i p n _
            split at hargs
            · cases hargs
            · split at hargs
              · -- n = 0
                split at hargs
                · cases hargs
                · rename_i a1 st1 h1
                  cases h2 : emitSlots (fillEllT fuel ev multiple) multiple (xs.drop (p + 1)) st1 with
                  | none => simp [h2] at hargs
                  | some q =>
                    obtain ⟨b, s⟩ := q
                    simp only [h2, Option.map_some, Option.some.injEq, Prod.mk.injEq] at hargs
                    rw [← hargs.1, itemsWfS_append,
                      emitSlots_wfS _ hc multiple _ _ a1 st1 (take_wfSAll p xs hxs) h1,
                      emitSlots_wfS _ hc multiple _ _ b s (drop_wfSAll (p + 1) xs hxs) h2]
                    rfl
              · split at hargs
                · cases hargs
                · rename_i a1 c h1
                  cases h2 : emitSlots (fillEllT fuel ev multiple) multiple (xs.drop (p + 1)) ⟨st.stack, c⟩ with
                  | none => simp [h2] at hargs
                  | some q =>
                    obtain ⟨b, s⟩ := q
                    simp only [h2, Option.map_some, Option.some.injEq, Prod.mk.injEq] at hargs
                    rw [← hargs.1, itemsWfS_append,
                      emitRepeat_wfS _ hc multiple _ (take_wfSAll p xs hxs) _ _ _ _ a1 c h1,
                      emitSlots_wfS _ hc multiple _ _ b s (drop_wfSAll (p + 1) xs hxs) h2]
                    rfl
          · cases hargs
    | ascii _ | asciiVar _ _ _ | binary _ | boolean _ | int _ _ | uint _ _ | float _ _ | empty =>
      simp only [fillEllT, Option.some.injEq, Prod.mk.injEq] at h
      rw [← h.1]; exact hw

/-! ### FillVariables -/

/-- the fill-in items of a table are well formed -/
def Env.itemsWfS : Env → Bool
  | [] => true
  | (_, .item t) :: r => t.wfS && Env.itemsWfS r
  | _ :: r => Env.itemsWfS r

theorem Env.itemsWfS_filter (p : Name × GoVal → Bool) : ∀ (env : Env), env.itemsWfS = true → Env.itemsWfS (env.filter p) = true
  | [], _ => rfl
  | (k, v) :: r, h => by
    have hr : Env.itemsWfS r = true := by
      cases v <;> simp only [Env.itemsWfS, Bool.and_eq_true] at h <;> first | exact h | exact h.2
    simp only [List.filter]
    split
    · cases v with
      | item t =>
        simp only [Env.itemsWfS, Bool.and_eq_true] at h ⊢
        exact ⟨h.1, Env.itemsWfS_filter p r hr⟩
      | sint _ _ | uint _ _ | f32 _ | f64 _ | str _ | bool _ | other =>
        simp only [Env.itemsWfS]
        exact Env.itemsWfS_filter p r hr
    · exact Env.itemsWfS_filter p r hr

theorem Env.get_item_wfS : ∀ (env : Env) (n : Name) (t : Tmpl), env.itemsWfS = true → env.get? n = some (.item t) → t.wfS = true
  | [], _, _, _, h => by simp [Env.get?] at h
  | (k, v) :: r, n, t, hw, h => by
    have hr : Env.itemsWfS r = true := by
      cases v <;> simp only [Env.itemsWfS, Bool.and_eq_true] at hw <;> first | exact hw | exact hw.2
    simp only [Env.get?] at h
    split at h
    · injection h with h; subst h
      simp only [Env.itemsWfS, Bool.and_eq_true] at hw
      exact hw.1
    · exact Env.get_item_wfS r n t hr h

theorem fillSlots_wfS (child : Tmpl → Option Tmpl) (hc : ∀ t t', t.wfS = true → child t = some t' → t'.wfS = true)
    (ov : Env) (hov : ov.itemsWfS = true) :
    ∀ (xs : Slots) (a : List GoVal), xs.wfSAll = true → fillSlots child ov xs = some a → itemsWfS a = true
  | .nil, a, _, h => by simp [fillSlots] at h; subst h; rfl
  | .var n r, a, hw, h => by
    simp only [fillSlots] at h
    cases hr : fillSlots child ov r with
    | none => simp [hr] at h
    | some b =>
      simp only [hr, Option.map_some, Option.some.injEq] at h
      rw [← h]
      have hrest := fillSlots_wfS child hc ov hov r b (by simpa [Slots.wfSAll] using hw) hr
      cases hg : ov.get? n with
      | none => simpa [itemsWfS] using hrest
      | some v =>
        cases v with
        | item t =>
          simp only [itemsWfS, Bool.and_eq_true]
          exact ⟨Env.get_item_wfS ov n t hov hg, hrest⟩
        | sint _ _ | uint _ _ | f32 _ | f64 _ | str _ | bool _ | other => simpa [itemsWfS] using hrest
  | .item t r, a, hw, h => by
    simp only [Slots.wfSAll, Bool.and_eq_true] at hw
    simp only [fillSlots] at h
    split at h
    · rename_i t' b hct hrb
      injection h with h
      rw [← h]
      simp only [itemsWfS, Bool.and_eq_true]
      exact ⟨hc t t' hw.1 hct, fillSlots_wfS child hc ov hov r b hw.2 hrb⟩
    · cases h

/-- **FillVariables keeps well-formedness**: any tree, any depth, any number of (nested)
ellipses, any table whose fill-in items are well formed -/
theorem fill_wfS : ∀ (fuel : Nat) (t : Tmpl) (env : Env) (t' : Tmpl), t.wfS = true → env.itemsWfS = true →
    fill fuel t env = some t' → t'.wfS = true
  | 0, _, _, _, _, _, h => by simp [fill] at h
  | fuel + 1, t, env, t', hw, henv, h => by
    cases t with
    | list xs =>
      simp only [fill] at h
      split at h
      · cases h
      · rename_i toFill remaining _
        split at h
        · rename_i ys hfilled
          have hys : (Tmpl.list ys).wfS = true := by
            split at hfilled
            · cases hf : fillEllT (fuel + 1) (env.filter isEllKey) (decide (remaining > 1)) (.list xs) ⟨[], 0⟩ with
              | none => simp [hf] at hfilled
              | some q =>
                obtain ⟨tq, sq⟩ := q
                simp only [hf, Option.map_some, Option.some.injEq] at hfilled
                subst hfilled
                exact fillEllT_wfS _ _ _ _ _ _ _ hw hf
            · injection hfilled with hfilled; rw [← hfilled]; exact hw
          have hysA : ys.wfSAll = true := by simp only [Tmpl.wfS, Bool.and_eq_true] at hys; exact hys.1.1.2
          have hov := Env.itemsWfS_filter (fun kv => !isEllKey kv) env henv
          split at h
          · cases h
          · rename_i a hfs
            refine mkList_wfS a t' h ?_
            exact fillSlots_wfS _ (fun t t' hw h => fill_wfS fuel t _ t' hw hov h) _ hov ys a hysA hfs
        · cases h
    | ascii _ | asciiVar _ _ _ | binary _ | boolean _ | int _ _ | uint _ _ | float _ _ | empty =>
      simp only [fill] at h
      exact fillLeaf_wfS _ _ _ hw h

/-- a table without fill-in items (repeat counts, numbers, strings, booleans) needs no hypothesis -/
theorem Env.itemsWfS_of_no_items : ∀ (env : Env), (∀ kv ∈ env, ∀ t, kv.2 ≠ GoVal.item t) → Env.itemsWfS env = true
  | [], _ => rfl
  | (k, v) :: r, h => by
    have hr := Env.itemsWfS_of_no_items r (fun kv hkv => h kv (List.mem_cons_of_mem _ hkv))
    cases v with
    | item t => exact absurd rfl (h (k, .item t) (List.mem_cons_self ..) t)
    | sint _ _ | uint _ _ | f32 _ | f64 _ | str _ | bool _ | other => simpa [Env.itemsWfS] using hr

theorem Tmpl.fill_wfS (t t' : Tmpl) (env : Env) (hw : t.wfS = true) (henv : env.itemsWfS = true)
    (h : t.fill env = some t') : t'.wfS = true := Secs.fill_wfS _ t env t' hw henv h

/-- after any fill and any expansion no variable name occurs twice anywhere in the tree -/
theorem fill_names_unique (t t' : Tmpl) (env : Env) (hw : t.wfS = true) (henv : env.itemsWfS = true)
    (h : t.fill env = some t') : nodupNames t'.vars = true :=
  wfS_vars_nodup t' (t.fill_wfS t' env hw henv h)

end Secs
