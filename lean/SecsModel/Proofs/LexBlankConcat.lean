/-
Lexer locality in front of any blank, part 2: one step and the whole stream. `p ++ [10]` is the
text up to a point, cut off by a line feed, and lexed without a lexing error; then the tokens of
`p ++ w :: b`, for any blank `w` and any `b`, are the tokens of `p ++ [10]` (without the
end-of-input token) followed by the tokens of `b` - provided no comment is open at the end of `p`
(a comment runs to the next line feed, so a blank other than a line feed does not end it).
-/
import SecsModel.Proofs.LexBlank
import SecsModel.Proofs.LexConcat
namespace Secs
namespace Lex
open Utf8

theorem sbl_snoc (p : Bytes) (w : Nat) (hw : isBlank w = true) : SBL (p ++ [w]) (p ++ [10]) :=
  ⟨p, w, 10, rfl, rfl, hw, by decide⟩

theorem txtScan_blank (ual : List Nat) (c : Nat) (r b : Bytes) (w : Nat) (hw : isBlank w = true)
    (hC : startsWith [47, 47] (c :: r ++ [10]) = true → scanComment (c :: r ++ w :: b) = scanComment (c :: r ++ [10]))
    (k : Kind) (v raw : Bytes) (m : Mode) (ht : txtScan ual (c :: r ++ [10]) = .tok k v raw m) :
    txtScan ual (c :: r ++ w :: b) = .tok k v raw m := by
  have h : SBL (c :: r ++ [w]) (c :: r ++ [10]) := sbl_snoc (c :: r) w hw
  have hE : EndsLF (c :: r ++ [10]) := endsLF_snoc (c :: r)
  have norm : ∀ t : Bytes, (c :: r ++ [w]) ++ t = c :: (r ++ w :: t) := by intro t; simp
  have e1 := startsWith_sbl1 _ _ b h
  have e3 := matchEllipsis_sbl _ _ b h
  have e4 := matchWord_sbl _ _ b h
  have e5 := startsNumber_sbl _ _ b h
  have e6 := scanNumber_sbl _ _ b h
  rw [norm] at e1 e3 e4 e5 e6
  have l6 := (scanNumber_lf _ [] hE).2
  have l4 := (matchWord_lf _ [] hE).2
  unfold txtScan at ht ⊢
  simp only [List.cons_append] at ht hC e1 e3 e4 e5 e6 l4 l6 ⊢
  simp only [e1, e3, e4, e5, e6]
  by_cases h1 : startsWith [47, 47] (c :: (r ++ [10])) = true
  · simp only [h1, if_true] at ht ⊢
    rw [hC h1]
    exact ht
  · simp only [h1, Bool.false_eq_true, if_false] at ht ⊢
    cases h2 : matchEllipsis (c :: (r ++ [10])) with
    | some ve => rw [h2] at ht; exact ht
    | none =>
      rw [h2] at ht
      simp only at ht ⊢
      cases h3 : matchWord (c :: (r ++ [10])) with
      | some wd =>
        rw [h3] at ht
        simp only at ht ⊢
        have hwl := l4 wd h3
        by_cases h4 : typeKeywords.contains (upper wd) = true
        · simp only [h4, if_true] at ht ⊢; exact ht
        · simp only [h4, Bool.false_eq_true, if_false] at ht ⊢
          by_cases h5 : boolKeywords.contains (upper wd) = true
          · simp only [h5, if_true] at ht ⊢; exact ht
          · simp only [h5, Bool.false_eq_true, if_false] at ht ⊢
            have hl := h.length_eq
            simp only [List.cons_append, List.length_cons, List.length_append, List.length_nil] at hl hwl
            have hd : SBL ((c :: r ++ [w]).drop wd.length) ((c :: r ++ [10]).drop wd.length) := h.drop _ (by simp; omega)
            have hda : (c :: (r ++ w :: b)).drop wd.length = (c :: r ++ [w]).drop wd.length ++ b := by
              rw [← norm, List.drop_append_of_le_length (by simp; omega)]
            have i1 := matchIdxs_sbl b (c :: (r ++ [10])).length _ _ (by simp) hd (c :: (r ++ w :: b)).length (by
              rw [← hda]; simp)
            simp only [List.cons_append] at i1 hda
            rw [hda, i1]
            exact ht
      | none =>
        rw [h3] at ht
        simp only at ht ⊢
        by_cases h6 : startsNumber (c :: (r ++ [10])) = true
        · simp only [h6, if_true] at ht ⊢
          have hl := h.length_eq
          simp only [List.cons_append, List.length_cons, List.length_append, List.length_nil] at hl l6
          have hd : SBL ((c :: r ++ [w]).drop (scanNumber (c :: (r ++ [10]))).length) ((c :: r ++ [10]).drop (scanNumber (c :: (r ++ [10]))).length) :=
            h.drop _ (by simp; omega)
          have hda : (c :: (r ++ w :: b)).drop (scanNumber (c :: (r ++ [10]))).length = (c :: r ++ [w]).drop (scanNumber (c :: (r ++ [10]))).length ++ b := by
            rw [← norm, List.drop_append_of_le_length (by simp; omega)]
          have i1 := nextIsAlnum_sbl ual _ _ b hd
          simp only [List.cons_append] at i1 hda
          rw [hda, i1]
          exact ht
        · simp only [h6, Bool.false_eq_true, if_false] at ht ⊢
          by_cases h8 : (c == 60) = true
          · simp only [h8, if_true] at ht ⊢; exact ht
          · simp only [h8, Bool.false_eq_true, if_false] at ht ⊢
            by_cases h9 : (c == 62) = true
            · simp only [h9, if_true] at ht ⊢; exact ht
            · simp only [h9, Bool.false_eq_true, if_false] at ht ⊢
              by_cases h10 : (c == 46) = true
              · simp only [h10, if_true] at ht ⊢; exact ht
              · simp only [h10, Bool.false_eq_true, if_false] at ht ⊢
                by_cases h11 : (c == 91) = true
                · simp only [h11, if_true] at ht ⊢
                  cases h12 : scanSize (c :: (r ++ [10])) with
                  | none => rw [h12] at ht; cases ht
                  | some rw' =>
                    rw [h12] at ht
                    have := scanSize_blank (c :: r) w b rw' (by simpa using h12)
                    simp only [List.cons_append] at this
                    rw [this]
                    exact ht
                · simp only [h11, Bool.false_eq_true, if_false] at ht ⊢
                  by_cases h13 : (c == 34) = true
                  · simp only [h13, if_true] at ht ⊢
                    cases h14 : scanQuoted (c :: (r ++ [10])) with
                    | none => rw [h14] at ht; cases ht
                    | some rw' =>
                      rw [h14] at ht
                      have := scanQuoted_blank (c :: r) w hw b rw' (by simpa using h14)
                      simp only [List.cons_append] at this
                      rw [this]
                      exact ht
                  · simp only [h13, Bool.false_eq_true, if_false] at ht
                    cases ht

/-- skipping what the mode ignores, on a text cut off by a line feed and on the same text followed
by another blank and more input: either everything is skipped, or skipping stops at the same
place -/
theorem skipR_pair (m : Mode) (w : Nat) (hw : isBlank w = true) (b : Bytes) : ∀ (n : Nat) (p : Bytes), p.length ≤ n →
    (skipR m (p ++ [10]) = [] ∧ skipR m (p ++ w :: b) = skipR m b) ∨
    (∃ c p', (c :: p') <:+ p ∧ isBlank c = false ∧ skipR m (p ++ [10]) = c :: p' ++ [10] ∧ skipR m (p ++ w :: b) = c :: p' ++ w :: b)
  | _, [], _ => by
    left
    simp only [List.nil_append]
    exact ⟨by rw [skipR_blank m 10 (by decide)]; rfl, skipR_blank m w hw b⟩
  | 0, c :: p1, hn => by simp at hn
  | n + 1, c :: p1, hn => by
    have hp1 : p1.length ≤ n := by simp at hn; omega
    have lift : ∀ q : Bytes, q <:+ p1 →
        ((skipR m (q ++ [10]) = [] ∧ skipR m (q ++ w :: b) = skipR m b) ∨
         (∃ c' p', (c' :: p') <:+ q ∧ isBlank c' = false ∧ skipR m (q ++ [10]) = c' :: p' ++ [10] ∧ skipR m (q ++ w :: b) = c' :: p' ++ w :: b)) →
        ((skipR m (q ++ [10]) = [] ∧ skipR m (q ++ w :: b) = skipR m b) ∨
         (∃ c' p', (c' :: p') <:+ c :: p1 ∧ isBlank c' = false ∧ skipR m (q ++ [10]) = c' :: p' ++ [10] ∧ skipR m (q ++ w :: b) = c' :: p' ++ w :: b)) := by
      intro q hq h
      rcases h with h | ⟨c', p', h1, h2, h3, h4⟩
      · exact Or.inl h
      · exact Or.inr ⟨c', p', List.IsSuffix.trans h1 (List.IsSuffix.trans hq (List.suffix_cons c p1)), h2, h3, h4⟩
    have ih := lift p1 (List.suffix_refl _) (skipR_pair m w hw b n p1 hp1)
    have stop : isBlank c = false → (∃ c' p', (c' :: p') <:+ c :: p1 ∧ isBlank c' = false ∧
        c :: (p1 ++ [10]) = c' :: p' ++ [10] ∧ c :: (p1 ++ w :: b) = c' :: p' ++ w :: b) :=
      fun hcb => ⟨c, p1, List.suffix_refl _, hcb, rfl, rfl⟩
    simp only [List.cons_append]
    rw [skipR_cons m c (p1 ++ [10]), skipR_cons m c (p1 ++ w :: b)]
    by_cases hb : isBlank c = true
    · simp only [hb, if_true]; exact ih
    · simp only [hb, Bool.false_eq_true, if_false]
      have hb' : isBlank c = false := by simpa using hb
      cases m with
      | text => exact Or.inr (stop hb')
      | header =>
        simp only
        by_cases hc : c < 128
        · simp only [hc, if_true]
          by_cases hs : Utf8.isSpace c = true
          · simp only [hs, if_true]; exact ih
          · simp only [hs, Bool.false_eq_true, if_false]; exact Or.inr (stop hb')
        · simp only [hc, if_false]
          obtain ⟨d1, _, d3, d4⟩ := decodeRune_sbl c (p1 ++ [w]) (p1 ++ [10]) b [] (by simpa using sbl_snoc (c :: p1) w hw) hb'
          have key : Utf8.decodeRune (c :: (p1 ++ w :: b)) = Utf8.decodeRune (c :: (p1 ++ [10])) := by
            have a : c :: (p1 ++ [w]) ++ b = c :: (p1 ++ w :: b) := by simp
            rw [← a, d1, d3]
          rw [← d3] at d4
          rw [key]
          by_cases hs : Utf8.isSpace (Utf8.decodeRune (c :: (p1 ++ [10]))).1 = true
          · simp only [hs, if_true]
            have hwd : (Utf8.decodeRune (c :: (p1 ++ [10]))).2 ≤ (c :: p1).length := by
              simp only [List.length_cons, List.length_append, List.length_nil] at d4 ⊢; omega
            have hpos := decodeRune_width_pos c (p1 ++ [10])
            have e1 : (c :: (p1 ++ [10])).drop (Utf8.decodeRune (c :: (p1 ++ [10]))).2 = (c :: p1).drop (Utf8.decodeRune (c :: (p1 ++ [10]))).2 ++ [10] := by
              exact List.drop_append_of_le_length (l₁ := c :: p1) (l₂ := [10]) hwd
            have e2 : (c :: (p1 ++ w :: b)).drop (Utf8.decodeRune (c :: (p1 ++ [10]))).2 = (c :: p1).drop (Utf8.decodeRune (c :: (p1 ++ [10]))).2 ++ w :: b := by
              exact List.drop_append_of_le_length (l₁ := c :: p1) (l₂ := w :: b) hwd
            rw [e1, e2]
            have hq : (c :: p1).drop (Utf8.decodeRune (c :: (p1 ++ [10]))).2 <:+ p1 := by
              cases hk : (Utf8.decodeRune (c :: (p1 ++ [10]))).2 with
              | zero => omega
              | succ k => simpa using List.drop_suffix k p1
            exact lift _ hq (skipR_pair .header w hw b n _ (by
              simp only [List.length_drop, List.length_cons] at hn ⊢; omega))
          · simp only [hs, Bool.false_eq_true, if_false]; exact Or.inr (stop hb')

/-- no comment is open at the end of `p`: every `//` in `p` has a line feed behind it (or the
blank that follows `p` is itself a line feed) -/
def COK (w : Nat) (p : Bytes) : Prop := w = 10 ∨ ∀ s, s <:+ p → startsWith [47, 47] s = true → 10 ∈ s

theorem COK.suffix {w : Nat} {p q : Bytes} (h : COK w p) (hq : q <:+ p) : COK w q := by
  rcases h with h | h
  · exact Or.inl h
  · exact Or.inr (fun s hs => h s (List.IsSuffix.trans hs hq))

theorem startsWith_of_snoc (q : Bytes) (c : Nat) (hc : c ≠ 47) (h : startsWith [47, 47] (q ++ [c]) = true) :
    startsWith [47, 47] q = true := by
  rcases q with _ | ⟨a, _ | ⟨a2, r⟩⟩
  · simp [startsWith] at h
  · simp [startsWith] at h; exact absurd h.2 hc
  · simpa [startsWith] using h

theorem COK.comment {w : Nat} {c : Nat} {p' : Bytes} (h : COK w (c :: p')) (b : Bytes)
    (hs : startsWith [47, 47] (c :: p' ++ [10]) = true) :
    scanComment (c :: p' ++ w :: b) = scanComment (c :: p' ++ [10]) := by
  have := scanComment_pair (c :: p') w 10 b (by
    rcases h with h | h
    · exact Or.inr ⟨h, rfl⟩
    · exact Or.inl (h _ (List.suffix_refl _) (startsWith_of_snoc _ 10 (by decide) hs)))
  exact this.1

theorem lexFrom_blank (ual : List Nat) (b : Bytes) (w : Nat) (hw : isBlank w = true) :
    ∀ (n : Nat) (p : Bytes) (m : Mode), p.length ≤ n →
    (∀ t ∈ (lexFrom ual m (p ++ [10])).map eraseT, t.kind ≠ .error) → COK w p →
    ∃ ts, (lexFrom ual m (p ++ [10])).map eraseT = ts ++ [eofTok] ∧
      (lexFrom ual m (p ++ w :: b)).map eraseT = ts ++ (lexFrom ual (modeOf m ts) b).map eraseT ∧
      (∀ t ∈ ts, t.kind ≠ .eof ∧ t.kind ≠ .error) := by
  intro n
  induction n with
  | zero =>
    intro p m hn hne hC
    have hp : p = [] := List.length_eq_zero_iff.mp (by omega)
    subst hp
    rw [lexFrom_unfold ual m ([] ++ [10]), lexFrom_unfold ual m ([] ++ w :: b)]
    simp only [List.nil_append]
    rw [skipR_blank m 10 (by decide), skipR_blank m w hw, skipR_nil, scanSig_nil]
    refine ⟨[], rfl, ?_, by simp⟩
    simp only [List.nil_append, modeOf, List.foldl_nil]
    exact (lexFrom_unfold ual m b).symm
  | succ n ih =>
    intro p m hn hne hC
    rw [lexFrom_unfold] at hne
    rw [lexFrom_unfold ual m (p ++ [10]), lexFrom_unfold ual m (p ++ w :: b)]
    rcases skipR_pair m w hw b p.length p (Nat.le_refl _) with ⟨h1, h2⟩ | ⟨c, p', hsuf, hcb, h3, h4⟩
    · rw [h1, h2, scanSig_nil]
      refine ⟨[], rfl, ?_, by simp⟩
      simp only [List.nil_append, modeOf, List.foldl_nil]
      exact (lexFrom_unfold ual m b).symm
    · rw [h3] at hne
      rw [h3, h4]
      have hc10 : c ≠ 10 := by intro h10; subst h10; simp [isBlank] at hcb
      have hE : EndsLF (c :: (p' ++ [10])) := endsLF_snoc (c :: p')
      have hlen : (c :: p').length ≤ p.length := hsuf.length_le
      have hCs : COK w (c :: p') := hC.suffix hsuf
      have key : ∀ (k : Kind) (v raw : Bytes) (m' : Mode),
          scanSig ual m (c :: p' ++ [10]) = (⟨k, v, 0, 0, none⟩, some (m', (c :: p').drop raw.length ++ [10])) →
          scanSig ual m (c :: p' ++ w :: b) = (⟨k, v, 0, 0, none⟩, some (m', (c :: p').drop raw.length ++ w :: b)) →
          raw ≠ [] → m' = nextMode m k → k ≠ .eof →
          ∃ ts, (match scanSig ual m (c :: p' ++ [10]) with
              | (t, none) => [t]
              | (t, some (m', r)) => t :: (lexFrom ual m' r).map eraseT) = ts ++ [eofTok] ∧
            (match scanSig ual m (c :: p' ++ w :: b) with
              | (t, none) => [t]
              | (t, some (m', r)) => t :: (lexFrom ual m' r).map eraseT) = ts ++ (lexFrom ual (modeOf m ts) b).map eraseT ∧
            (∀ t ∈ ts, t.kind ≠ .eof ∧ t.kind ≠ .error) := by
        intro k v raw m' s1 s2 hrne hm hkeof
        rw [s1] at hne
        rw [s1, s2]
        simp only at hne ⊢
        have hpos : 0 < raw.length := List.length_pos_iff.mpr hrne
        obtain ⟨ts, i1, i2, i3⟩ := ih ((c :: p').drop raw.length) m' (by
            simp only [List.length_drop]; omega) (fun t ht => hne t (List.mem_cons_of_mem _ ht))
            (hCs.suffix (List.drop_suffix _ _))
        refine ⟨⟨k, v, 0, 0, none⟩ :: ts, by rw [i1]; rfl, ?_, ?_⟩
        · rw [i2, modeOf_cons, hm]; rfl
        · intro t ht
          rcases List.mem_cons.mp ht with rfl | ht
          · exact ⟨hkeof, hne _ (List.mem_cons_self)⟩
          · exact i3 t ht
      have dropY : ∀ raw : Bytes, raw.length < (c :: (p' ++ [10])).length →
          (c :: p' ++ [10]).drop raw.length = (c :: p').drop raw.length ++ [10] ∧
          (c :: p' ++ w :: b).drop raw.length = (c :: p').drop raw.length ++ w :: b := by
        intro raw hr
        have hle : raw.length ≤ (c :: p').length := by
          simp only [List.length_cons, List.length_append, List.length_nil] at hr ⊢; omega
        exact ⟨List.drop_append_of_le_length hle, List.drop_append_of_le_length hle⟩
      cases m with
      | header =>
        obtain ⟨_, k, v, raw, m', f2, f3, f4, f5⟩ := hdrScan_lf c (p' ++ [10]) [] hE hc10
        have hk := hdrScan_kind _ _ _ _ _ f2
        have hx : hdrScan (c :: p' ++ w :: b) = hdrScan (c :: (p' ++ [10])) := by
          have := hdrScan_sbl c (p' ++ [w]) (p' ++ [10]) b (by simpa using sbl_snoc (c :: p') w hw) hcb (by
            intro hs
            have := hCs.comment b (by simpa using hs)
            simpa using this)
          simpa using this
        obtain ⟨dy, dx⟩ := dropY raw f3
        exact key k v raw m' (by
            simp only [scanSig]
            rw [show c :: p' ++ [10] = c :: (p' ++ [10]) from rfl, f2]
            simp only
            rw [← dy]; rfl) (by
            simp only [scanSig, hx, f2]
            rw [← dx]) f4 f5 hk.1
      | text =>
        cases ht : txtScan ual (c :: (p' ++ [10])) with
        | eof => exact absurd ht (txtScan_cons_ne_eof ual c _)
        | err e =>
          exfalso
          rw [show c :: p' ++ [10] = c :: (p' ++ [10]) from rfl] at hne
          simp only [scanSig, ht] at hne
          exact hne _ (List.mem_singleton.mpr rfl) rfl
        | tok k v raw m' =>
          obtain ⟨_, f3, f4, f5⟩ := txtScan_lf ual c (p' ++ [10]) [] hE hc10 k v raw m' ht
          have hk := txtScan_kind _ _ _ _ _ _ ht
          have hx := txtScan_blank ual c p' b w hw (fun hs => hCs.comment b hs) k v raw m' (by simpa using ht)
          obtain ⟨dy, dx⟩ := dropY raw f3
          exact key k v raw m' (by
              simp only [scanSig]
              rw [show c :: p' ++ [10] = c :: (p' ++ [10]) from rfl, ht]
              simp only
              rw [← dy]; rfl) (by
              simp only [scanSig, hx]
              rw [← dx]) f4 f5 hk.1

end Lex
end Secs
