/-
Float-freeness is preserved by every producer too, so for trees without F4/F8 items the invariant
of Proofs/FillWF.lean is the full `Tmpl.wf` (values in range included): `fill_wf`.
-/
import SecsModel.Proofs.FillWF
namespace Secs

def itemsFF : List GoVal → Bool
  | [] => true
  | .item t :: r => t.floatFree && itemsFF r
  | _ :: r => itemsFF r

theorem itemsFF_append (a b : List GoVal) : itemsFF (a ++ b) = (itemsFF a && itemsFF b) := by
  induction a with
  | nil => simp [itemsFF]
  | cons g r ih => cases g <;> simp [itemsFF, ih, Bool.and_assoc]

theorem mkInt_ff (w : Nat) (args : List GoVal) (t : Tmpl) (h : mkInt w args = some t) : t.floatFree = true := by
  unfold mkInt at h
  simp only [] at h
  split at h
  · cases h
  · split at h
    · cases h
    · split at h
      · injection h with h; subst h; rfl
      · cases h

theorem mkUint_ff (w : Nat) (args : List GoVal) (t : Tmpl) (h : mkUint w args = some t) : t.floatFree = true := by
  unfold mkUint at h
  simp only [] at h
  split at h
  · cases h
  · split at h
    · cases h
    · split at h
      · injection h with h; subst h; rfl
      · cases h

theorem mkBoolean_ff (args : List GoVal) (t : Tmpl) (h : mkBoolean args = some t) : t.floatFree = true := by
  unfold mkBoolean at h
  split at h
  · cases h
  · split at h
    · cases h
    · split at h
      · injection h with h; subst h; rfl
      · cases h

theorem mkBinary_ff (args : List GoVal) (t : Tmpl) (h : mkBinary args = some t) : t.floatFree = true := by
  unfold mkBinary at h
  split at h
  · cases h
  · split at h
    · cases h
    · split at h
      · cases h
      · dsimp only at h
        split at h
        · injection h with h; subst h; rfl
        · cases h

theorem mkAscii_ff (s : Bytes) (t : Tmpl) (h : mkAscii s = some t) : t.floatFree = true := by
  unfold mkAscii at h
  split at h
  · cases h
  · split at h
    · injection h with h; subst h; rfl
    · cases h

theorem mkAsciiVar_ff (n : Name) (mn mx : Int) (t : Tmpl) (h : mkAsciiVar n mn mx = some t) : t.floatFree = true := by
  unfold mkAsciiVar at h
  split at h
  · cases h
  · split at h
    · cases h
    · split at h
      · cases h
      · injection h with h; subst h; rfl

theorem mkListSlots_ff : ∀ (args : List GoVal) (xs : Slots), mkListSlots args = some xs → itemsFF args = true →
    xs.floatFreeAll = true
  | [], xs, h, _ => by simp [mkListSlots] at h; subst h; rfl
  | g :: r, xs, h, hi => by
    cases g with
    | item t =>
      simp only [mkListSlots] at h
      cases hr : mkListSlots r with
      | none => simp [hr] at h
      | some ys =>
        simp [hr] at h; subst h
        simp only [itemsFF, Bool.and_eq_true] at hi
        simp only [Slots.floatFreeAll, Bool.and_eq_true]
        exact ⟨hi.1, mkListSlots_ff r ys hr hi.2⟩
    | str n =>
      simp only [mkListSlots] at h
      cases hr : mkListSlots r with
      | none => simp [hr] at h
      | some ys =>
        simp [hr] at h; subst h
        simp only [itemsFF] at hi
        simp only [Slots.floatFreeAll]
        exact mkListSlots_ff r ys hr hi
    | sint k v | uint k v | f32 b | f64 b | bool b | other => simp [mkListSlots] at h

theorem mkList_ff (args : List GoVal) (t : Tmpl) (h : mkList args = some t) (hi : itemsFF args = true) :
    t.floatFree = true := by
  unfold mkList at h
  split at h
  · cases h
  · cases hs : mkListSlots args with
    | none => simp [hs] at h
    | some xs =>
      simp only [hs] at h
      split at h
      · injection h with h; subst h
        simp only [Tmpl.floatFree]
        exact mkListSlots_ff args xs hs hi
      · cases h

/-! ### one-node fills -/

theorem fillLeaf_ff (t t' : Tmpl) (env : Env) (hw : t.floatFree = true) (h : fillLeaf t env = some t') : t'.floatFree = true := by
  cases t with
  | list xs => simp [fillLeaf] at h
  | ascii s => simp [fillLeaf] at h; subst h; exact hw
  | empty => simp [fillLeaf] at h; subst h; rfl
  | asciiVar n mn mx =>
    simp only [fillLeaf] at h
    split at h
    · injection h with h; subst h; exact hw
    · split at h
      · cases h
      · split at h
        · cases h
        · exact mkAscii_ff _ _ h
    · cases h
  | binary xs =>
    simp only [fillLeaf] at h
    split at h
    · exact mkBinary_ff _ _ h
    · injection h with h; subst h; exact hw
  | boolean xs =>
    simp only [fillLeaf] at h
    split at h
    · exact mkBoolean_ff _ _ h
    · injection h with h; subst h; exact hw
  | int w xs =>
    simp only [fillLeaf] at h
    split at h
    · exact mkInt_ff _ _ _ h
    · injection h with h; subst h; exact hw
  | uint w xs =>
    simp only [fillLeaf] at h
    split at h
    · exact mkUint_ff _ _ _ h
    · injection h with h; subst h; exact hw
  | float w xs => simp [Tmpl.floatFree] at hw

/-! ### ellipsis expansion -/

/-- a child filler that keeps well-formedness -/
def ChildFF (child : Tmpl → FillSt → Option (Tmpl × FillSt)) : Prop :=
  ∀ t st t' st', t.floatFree = true → child t st = some (t', st') → t'.floatFree = true

theorem emitSlots_ff (child : Tmpl → FillSt → Option (Tmpl × FillSt)) (hc : ChildFF child) (multiple : Bool) :
    ∀ (xs : Slots) (st : FillSt) (a : List GoVal) (st' : FillSt), xs.floatFreeAll = true →
      emitSlots child multiple xs st = some (a, st') → itemsFF a = true
  | .nil, st, a, st', _, h => by simp [emitSlots] at h; rw [h.1]; rfl
  | .var n r, st, a, st', hw, h => by
    simp only [emitSlots] at h
    cases hr : emitSlots child multiple r (newName multiple st n).2 with
    | none => simp [hr] at h
    | some p =>
      obtain ⟨b, s⟩ := p
      simp only [hr, Option.map_some, Option.some.injEq, Prod.mk.injEq] at h
      rw [← h.1]
      simp only [itemsFF]
      exact emitSlots_ff child hc multiple r _ b s (by simpa [Slots.floatFreeAll] using hw) hr
  | .item t r, st, a, st', hw, h => by
    simp only [Slots.floatFreeAll, Bool.and_eq_true] at hw
    simp only [emitSlots] at h
    split at h
    · cases h
    · rename_i g st1 hhere
      cases hr : emitSlots child multiple r st1 with
      | none => simp [hr] at h
      | some p =>
        obtain ⟨b, s⟩ := p
        simp only [hr, Option.map_some, Option.some.injEq, Prod.mk.injEq] at h
        rw [← h.1]
        have hrest := emitSlots_ff child hc multiple r _ b s hw.2 hr
        -- the argument made from this slot
        have hg : itemsFF [g] = true := by
          cases t with
          | list ys =>
            simp only [] at hhere
            cases hch : child (.list ys) st with
            | none => simp [hch] at hhere
            | some q =>
              obtain ⟨t', s'⟩ := q
              simp only [hch, Option.map_some, Option.some.injEq, Prod.mk.injEq] at hhere
              rw [← hhere.1]
              simp only [itemsFF, Bool.and_true]
              exact hc _ _ _ _ hw.1 hch
          | empty =>
            simp only [Option.some.injEq, Prod.mk.injEq] at hhere
            rw [← hhere.1]; rfl
          | asciiVar n mn mx =>
            simp only [] at hhere
            cases hmk : mkAsciiVar (newName multiple st n).1 mn mx with
            | none => simp [hmk] at hhere
            | some t' =>
              simp only [hmk, Option.map_some, Option.some.injEq, Prod.mk.injEq] at hhere
              rw [← hhere.1]
              simp only [itemsFF, Bool.and_true]
              exact mkAsciiVar_ff _ _ _ _ hmk
          | ascii s0 =>
            simp only [] at hhere
            split at hhere
            · simp only [Option.some.injEq, Prod.mk.injEq] at hhere
              rw [← hhere.1]; simp only [itemsFF, Bool.and_true]; exact hw.1
            · cases hfl : fillLeaf (.ascii s0) (renameAll multiple (Tmpl.ascii s0).vars st).1 with
              | none => simp [hfl] at hhere
              | some t' =>
                simp only [hfl, Option.map_some, Option.some.injEq, Prod.mk.injEq] at hhere
                rw [← hhere.1]; simp only [itemsFF, Bool.and_true]
                exact fillLeaf_ff _ _ _ hw.1 hfl
          | binary ys =>
            simp only [] at hhere
            split at hhere
            · simp only [Option.some.injEq, Prod.mk.injEq] at hhere
              rw [← hhere.1]; simp only [itemsFF, Bool.and_true]; exact hw.1
            · cases hfl : fillLeaf (.binary ys) (renameAll multiple (Tmpl.binary ys).vars st).1 with
              | none => simp [hfl] at hhere
              | some t' =>
                simp only [hfl, Option.map_some, Option.some.injEq, Prod.mk.injEq] at hhere
                rw [← hhere.1]; simp only [itemsFF, Bool.and_true]
                exact fillLeaf_ff _ _ _ hw.1 hfl
          | boolean ys =>
            simp only [] at hhere
            split at hhere
            · simp only [Option.some.injEq, Prod.mk.injEq] at hhere
              rw [← hhere.1]; simp only [itemsFF, Bool.and_true]; exact hw.1
            · cases hfl : fillLeaf (.boolean ys) (renameAll multiple (Tmpl.boolean ys).vars st).1 with
              | none => simp [hfl] at hhere
              | some t' =>
                simp only [hfl, Option.map_some, Option.some.injEq, Prod.mk.injEq] at hhere
                rw [← hhere.1]; simp only [itemsFF, Bool.and_true]
                exact fillLeaf_ff _ _ _ hw.1 hfl
          | int w ys =>
            simp only [] at hhere
            split at hhere
            · simp only [Option.some.injEq, Prod.mk.injEq] at hhere
              rw [← hhere.1]; simp only [itemsFF, Bool.and_true]; exact hw.1
            · cases hfl : fillLeaf (.int w ys) (renameAll multiple (Tmpl.int w ys).vars st).1 with
              | none => simp [hfl] at hhere
              | some t' =>
                simp only [hfl, Option.map_some, Option.some.injEq, Prod.mk.injEq] at hhere
                rw [← hhere.1]; simp only [itemsFF, Bool.and_true]
                exact fillLeaf_ff _ _ _ hw.1 hfl
          | uint w ys =>
            simp only [] at hhere
            split at hhere
            · simp only [Option.some.injEq, Prod.mk.injEq] at hhere
              rw [← hhere.1]; simp only [itemsFF, Bool.and_true]; exact hw.1
            · cases hfl : fillLeaf (.uint w ys) (renameAll multiple (Tmpl.uint w ys).vars st).1 with
              | none => simp [hfl] at hhere
              | some t' =>
                simp only [hfl, Option.map_some, Option.some.injEq, Prod.mk.injEq] at hhere
                rw [← hhere.1]; simp only [itemsFF, Bool.and_true]
                exact fillLeaf_ff _ _ _ hw.1 hfl
          | float w ys => simp [Tmpl.floatFree] at hw
        have : itemsFF (g :: b) = itemsFF ([g] ++ b) := rfl
        rw [this, itemsFF_append, hg, hrest]; rfl

theorem emitRepeat_ff (child : Tmpl → FillSt → Option (Tmpl × FillSt)) (hc : ChildFF child) (multiple : Bool)
    (pre : Slots) (hw : pre.floatFreeAll = true) (outer : List Nat) :
    ∀ (reps j count : Nat) (a : List GoVal) (c : Nat),
      emitRepeat child multiple pre outer reps j count = some (a, c) → itemsFF a = true
  | 0, j, count, a, c, h => by simp [emitRepeat] at h; rw [h.1]; rfl
  | reps + 1, j, count, a, c, h => by
    simp only [emitRepeat] at h
    cases he : emitSlots child multiple pre ⟨outer ++ [j], count⟩ with
    | none => simp [he] at h
    | some p =>
      obtain ⟨a1, st1⟩ := p
      simp only [he] at h
      cases hr : emitRepeat child multiple pre outer reps (j + 1) st1.count with
      | none => simp [hr] at h
      | some q =>
        obtain ⟨b, c'⟩ := q
        simp only [hr, Option.map_some, Option.some.injEq, Prod.mk.injEq] at h
        rw [← h.1, itemsFF_append, emitSlots_ff child hc multiple pre _ a1 st1 hw he,
          emitRepeat_ff child hc multiple pre hw outer reps (j + 1) st1.count b c' hr]
        rfl

theorem take_floatFreeAll : ∀ (k : Nat) (xs : Slots), xs.floatFreeAll = true → (Slots.take k xs).floatFreeAll = true
  | 0, _, _ => by cases ‹Slots› <;> rfl
  | _ + 1, .nil, _ => rfl
  | k + 1, .item t r, h => by
    simp only [Slots.take, Slots.floatFreeAll, Bool.and_eq_true] at *
    exact ⟨h.1, take_floatFreeAll k r h.2⟩
  | k + 1, .var n r, h => by
    simp only [Slots.take, Slots.floatFreeAll] at *
    exact take_floatFreeAll k r h

theorem drop_floatFreeAll : ∀ (k : Nat) (xs : Slots), xs.floatFreeAll = true → (Slots.drop k xs).floatFreeAll = true
  | 0, xs, h => by cases xs <;> simpa [Slots.drop] using h
  | _ + 1, .nil, _ => rfl
  | k + 1, .item t r, h => by
    simp only [Slots.floatFreeAll, Bool.and_eq_true] at h
    simp only [Slots.drop]
    exact drop_floatFreeAll k r h.2
  | k + 1, .var n r, h => by
    simp only [Slots.floatFreeAll] at h
    simp only [Slots.drop]
    exact drop_floatFreeAll k r h

/-- **ellipsis expansion keeps well-formedness**, at any nesting depth -/
theorem fillEllT_ff : ∀ (fuel : Nat) (ev : Env) (multiple : Bool) (t : Tmpl) (st : FillSt) (t' : Tmpl) (st' : FillSt),
    t.floatFree = true → fillEllT fuel ev multiple t st = some (t', st') → t'.floatFree = true
  | 0, _, _, _, _, _, _, _, h => by simp [fillEllT] at h
  | fuel + 1, ev, multiple, t, st, t', st', hw, h => by
    have hc : ChildFF (fillEllT fuel ev multiple) :=
      fun t st t' st' hw h => fillEllT_ff fuel ev multiple t st t' st' hw h
    cases t with
    | list xs =>
      have hxs : xs.floatFreeAll = true := by simpa [Tmpl.floatFree] using hw
      simp only [fillEllT] at h
      split at h
      · cases h
      · rename_i a st2 hargs
        cases hm : mkList a with
        | none => simp [hm] at h
        | some tl =>
          simp only [hm, Option.map_some, Option.some.injEq, Prod.mk.injEq] at h
          rw [← h.1]
          refine mkList_ff a tl hm ?_
          -- the arguments, by the way they were produced
          split at hargs
          · exact emitSlots_ff _ hc multiple xs st a st2 hxs hargs
          · rename_i p n _
            split at hargs
            · cases hargs
            · split at hargs
              · -- n = 0
                split at hargs
                · cases hargs
                · rename_i a1 st1 h1
                  cases h2 : emitSlots (fillEllT fuel ev multiple) multiple (xs.drop (p + 1)) st1 with
                  | none => simp [h2] at hargs
                  | some q =>
                    obtain ⟨b, s⟩ := q
                    simp only [h2, Option.map_some, Option.some.injEq, Prod.mk.injEq] at hargs
                    rw [← hargs.1, itemsFF_append,
                      emitSlots_ff _ hc multiple _ _ a1 st1 (take_floatFreeAll p xs hxs) h1,
                      emitSlots_ff _ hc multiple _ _ b s (drop_floatFreeAll (p + 1) xs hxs) h2]
                    rfl
              · split at hargs
                · cases hargs
                · rename_i a1 c h1
                  cases h2 : emitSlots (fillEllT fuel ev multiple) multiple (xs.drop (p + 1)) ⟨st.stack, c⟩ with
                  | none => simp [h2] at hargs
                  | some q =>
                    obtain ⟨b, s⟩ := q
                    simp only [h2, Option.map_some, Option.some.injEq, Prod.mk.injEq] at hargs
                    rw [← hargs.1, itemsFF_append,
                      emitRepeat_ff _ hc multiple _ (take_floatFreeAll p xs hxs) _ _ _ _ a1 c h1,
                      emitSlots_ff _ hc multiple _ _ b s (drop_floatFreeAll (p + 1) xs hxs) h2]
                    rfl
          · cases hargs
    | ascii _ | asciiVar _ _ _ | binary _ | boolean _ | int _ _ | uint _ _ | float _ _ | empty =>
      simp only [fillEllT, Option.some.injEq, Prod.mk.injEq] at h
      rw [← h.1]; exact hw

/-! ### FillVariables -/

/-- the fill-in items of a table are well formed -/
def Env.itemsFF : Env → Bool
  | [] => true
  | (_, .item t) :: r => t.floatFree && Env.itemsFF r
  | _ :: r => Env.itemsFF r

theorem Env.itemsFF_filter (p : Name × GoVal → Bool) : ∀ (env : Env), env.itemsFF = true → Env.itemsFF (env.filter p) = true
  | [], _ => rfl
  | (k, v) :: r, h => by
    have hr : Env.itemsFF r = true := by
      cases v <;> simp only [Env.itemsFF, Bool.and_eq_true] at h <;> first | exact h | exact h.2
    simp only [List.filter]
    split
    · cases v with
      | item t =>
        simp only [Env.itemsFF, Bool.and_eq_true] at h ⊢
        exact ⟨h.1, Env.itemsFF_filter p r hr⟩
      | sint _ _ | uint _ _ | f32 _ | f64 _ | str _ | bool _ | other =>
        simp only [Env.itemsFF]
        exact Env.itemsFF_filter p r hr
    · exact Env.itemsFF_filter p r hr

theorem Env.get_item_ff : ∀ (env : Env) (n : Name) (t : Tmpl), env.itemsFF = true → env.get? n = some (.item t) → t.floatFree = true
  | [], _, _, _, h => by simp [Env.get?] at h
  | (k, v) :: r, n, t, hw, h => by
    have hr : Env.itemsFF r = true := by
      cases v <;> simp only [Env.itemsFF, Bool.and_eq_true] at hw <;> first | exact hw | exact hw.2
    simp only [Env.get?] at h
    split at h
    · injection h with h; subst h
      simp only [Env.itemsFF, Bool.and_eq_true] at hw
      exact hw.1
    · exact Env.get_item_ff r n t hr h

theorem fillSlots_ff (child : Tmpl → Option Tmpl) (hc : ∀ t t', t.floatFree = true → child t = some t' → t'.floatFree = true)
    (ov : Env) (hov : ov.itemsFF = true) :
    ∀ (xs : Slots) (a : List GoVal), xs.floatFreeAll = true → fillSlots child ov xs = some a → itemsFF a = true
  | .nil, a, _, h => by simp [fillSlots] at h; subst h; rfl
  | .var n r, a, hw, h => by
    simp only [fillSlots] at h
    cases hr : fillSlots child ov r with
    | none => simp [hr] at h
    | some b =>
      simp only [hr, Option.map_some, Option.some.injEq] at h
      rw [← h]
      have hrest := fillSlots_ff child hc ov hov r b (by simpa [Slots.floatFreeAll] using hw) hr
      cases hg : ov.get? n with
      | none => simpa [itemsFF] using hrest
      | some v =>
        cases v with
        | item t =>
          simp only [itemsFF, Bool.and_eq_true]
          exact ⟨Env.get_item_ff ov n t hov hg, hrest⟩
        | sint _ _ | uint _ _ | f32 _ | f64 _ | str _ | bool _ | other => simpa [itemsFF] using hrest
  | .item t r, a, hw, h => by
    simp only [Slots.floatFreeAll, Bool.and_eq_true] at hw
    simp only [fillSlots] at h
    split at h
    · rename_i t' b hct hrb
      injection h with h
      rw [← h]
      simp only [itemsFF, Bool.and_eq_true]
      exact ⟨hc t t' hw.1 hct, fillSlots_ff child hc ov hov r b hw.2 hrb⟩
    · cases h

/-- **FillVariables keeps well-formedness**: any tree, any depth, any number of (nested)
ellipses, any table whose fill-in items are well formed -/
theorem fill_ff : ∀ (fuel : Nat) (t : Tmpl) (env : Env) (t' : Tmpl), t.floatFree = true → env.itemsFF = true →
    fill fuel t env = some t' → t'.floatFree = true
  | 0, _, _, _, _, _, h => by simp [fill] at h
  | fuel + 1, t, env, t', hw, henv, h => by
    cases t with
    | list xs =>
      simp only [fill] at h
      split at h
      · cases h
      · rename_i toFill remaining _
        split at h
        · rename_i ys hfilled
          have hys : (Tmpl.list ys).floatFree = true := by
            split at hfilled
            · cases hf : fillEllT (fuel + 1) (env.filter isEllKey) (decide (remaining > 1)) (.list xs) ⟨[], 0⟩ with
              | none => simp [hf] at hfilled
              | some q =>
                obtain ⟨tq, sq⟩ := q
                simp only [hf, Option.map_some, Option.some.injEq] at hfilled
                subst hfilled
                exact fillEllT_ff _ _ _ _ _ _ _ hw hf
            · injection hfilled with hfilled; rw [← hfilled]; exact hw
          have hysA : ys.floatFreeAll = true := by simpa [Tmpl.floatFree] using hys
          have hov := Env.itemsFF_filter (fun kv => !isEllKey kv) env henv
          split at h
          · cases h
          · rename_i a hfs
            refine mkList_ff a t' h ?_
            exact fillSlots_ff _ (fun t t' hw h => fill_ff fuel t _ t' hw hov h) _ hov ys a hysA hfs
        · cases h
    | ascii _ | asciiVar _ _ _ | binary _ | boolean _ | int _ _ | uint _ _ | float _ _ | empty =>
      simp only [fill] at h
      exact fillLeaf_ff _ _ _ hw h

/-- a table without fill-in items (repeat counts, numbers, strings, booleans) needs no hypothesis -/
theorem Env.itemsFF_of_no_items : ∀ (env : Env), (∀ kv ∈ env, ∀ t, kv.2 ≠ GoVal.item t) → Env.itemsFF env = true
  | [], _ => rfl
  | (k, v) :: r, h => by
    have hr := Env.itemsFF_of_no_items r (fun kv hkv => h kv (List.mem_cons_of_mem _ hkv))
    cases v with
    | item t => exact absurd rfl (h (k, .item t) (List.mem_cons_self ..) t)
    | sint _ _ | uint _ _ | f32 _ | f64 _ | str _ | bool _ | other => simpa [Env.itemsFF] using hr

theorem Tmpl.fill_ff (t t' : Tmpl) (env : Env) (hw : t.floatFree = true) (henv : env.itemsFF = true)
    (h : t.fill env = some t') : t'.floatFree = true := Secs.fill_ff _ t env t' hw henv h


/-- **for float-free trees FillVariables keeps the full well-formedness `wf`** (values in range
included): any depth, any number of nested ellipses, any table of float-free well-formed items -/
theorem Tmpl.fill_wf (t t' : Tmpl) (env : Env) (hw : t.wf = true) (hf : t.floatFree = true)
    (henv : Env.itemsWfS env = true) (henvf : Env.itemsFF env = true) (h : t.fill env = some t') :
    t'.wf = true ∧ t'.floatFree = true :=
  ⟨wf_of_wfS t' (t.fill_wfS t' env (wfS_of_wf t hw) henv h) (t.fill_ff t' env hf henvf h), t.fill_ff t' env hf henvf h⟩

end Secs
