/- Encoder/decoder lemmas behind C01, C02, C03, C13. -/
import SecsModel.Proofs.Bytes
import SecsModel.Model.WF
import SecsModel.Model.Decode
namespace Secs

/-! ### closed slot lists -/

theorem slotVals_map_val {α} (vs : List α) : slotVals (vs.map Slot.val) = some vs := by
  induction vs with
  | nil => rfl
  | cons v r ih => simp [slotVals, ih]

theorem slotVars_map_val {α} (vs : List α) : slotVars (vs.map Slot.val) = [] := by
  induction vs with
  | nil => rfl
  | cons v r ih => simp [slotVars, ih]

theorem closed_slots {α} (xs : List (Slot α)) (h : (slotVars xs).isEmpty = true) :
    ∃ vs : List α, xs = vs.map Slot.val := by
  induction xs with
  | nil => exact ⟨[], rfl⟩
  | cons x r ih =>
    cases x with
    | var n => simp [slotVars] at h
    | val a =>
      obtain ⟨vs, hvs⟩ := ih (by simpa [slotVars] using h)
      exact ⟨a :: vs, by simp [hvs]⟩

theorem slotsOk_vals {α} (p : α → Bool) (vs : List α) (h : slotsOk p (vs.map Slot.val) = true) :
    ∀ v ∈ vs, p v = true := by
  intro v hv
  simp only [slotsOk, Bool.and_eq_true, List.all_eq_true] at h
  have := h.1 (Slot.val v) (List.mem_map.mpr ⟨v, hv, rfl⟩)
  simpa using this

/-! ### chunks -/

theorem chunks_flatMap {α} (w : Nat) (hw : 0 < w) (f : α → Bytes) (vs : List α)
    (hf : ∀ v ∈ vs, (f v).length = w) (fuel : Nat) (hfuel : vs.length ≤ fuel) :
    chunks w fuel (vs.flatMap f) = vs.map f := by
  induction vs generalizing fuel with
  | nil => cases fuel <;> simp [chunks]
  | cons v r ih =>
    cases fuel with
    | zero => simp at hfuel
    | succ fuel =>
      have hv : (f v).length = w := hf v (by simp)
      have hne : f v ++ r.flatMap f ≠ [] := by
        intro h; have := congrArg List.length h; simp [hv] at this; omega
      simp only [List.flatMap_cons]
      rw [chunks]
      · rw [List.take_left' hv, List.drop_left' hv,
          ih (fun x hx => hf x (by simp [hx])) fuel (by simpa using hfuel)]
        simp
      · exact hne

theorem flatMap_length_const {α} (w : Nat) (f : α → Bytes) (vs : List α)
    (hf : ∀ v ∈ vs, (f v).length = w) : (vs.flatMap f).length = vs.length * w := by
  induction vs with
  | nil => simp
  | cons v r ih =>
    simp only [List.flatMap_cons, List.length_append, List.length_cons]
    rw [hf v (by simp), ih (fun x hx => hf x (by simp [hx])), Nat.succ_mul]; omega

/-! ### two's complement -/

theorem intBytes_length (w : Nat) (v : Int) : (intBytes w v).length = w := beEnc_length _ _

theorem pow8 (w : Nat) : (256 : Nat) ^ w = 2 ^ (8 * w) := by
  rw [show (256 : Nat) = 2 ^ 8 by rfl, ← Nat.pow_mul]

theorem toSigned_intBytes (w : Nat) (hw : w = 1 ∨ w = 2 ∨ w = 4 ∨ w = 8) (v : Int)
    (h : intInRange w v = true) : toSigned w (beDec (intBytes w v)) = v := by
  unfold intBytes
  rw [← beEnc_mod, beDec_beEnc _ _ (Nat.mod_lt _ (Nat.pow_pos (by omega)))]
  unfold toSigned
  simp only [intInRange, Bool.and_eq_true, decide_eq_true_eq] at h
  rcases hw with rfl | rfl | rfl | rfl <;> simp at h ⊢ <;> omega

/-! ### format lookup -/

theorem decodeFmt_code (f : Fmt) : decodeFmt? f.code = some f := by cases f <;> rfl

/-! ### header decoding -/

/-- the decoder reads a header produced by `headerBytes` back -/
theorem decItem_header (f : Fmt) (size : Nat) (h : size * f.width ≤ maxByteSize) :
    ∃ k, 1 ≤ k ∧ k ≤ 3 ∧ size * f.width < 256 ^ k ∧
      headerBytes f size = some ((f.code * 4 + k) :: beEnc k (size * f.width)) ∧
      (f.code * 4 + k) % 4 = k ∧ (f.code * 4 + k) / 4 = f.code :=
  ⟨nLB (size * f.width), (nLB_pos _).1, (nLB_pos _).2, nLB_ok _ h, headerBytes_closed f size h,
    by have := nLB_pos (size * f.width); omega, by have := nLB_pos (size * f.width); omega⟩

/-- a non-list item: header followed by a payload that `decPayload` accepts -/
theorem decItem_leaf (f : Fmt) (hf : f ≠ .list) (size : Nat) (payload : Bytes) (t : Tmpl)
    (hlen : payload.length = size * f.width) (hmax : size * f.width ≤ maxByteSize)
    (hd : decPayload f payload = some t) (rest : Bytes) (fuel : Nat) :
    decItem (fuel + 1) (withHeader f size payload ++ rest) = some (t, rest) := by
  obtain ⟨k, k1, k3, kn, hh, h4, h5⟩ := decItem_header f size hmax
  unfold withHeader
  rw [hh]
  simp only [List.cons_append, List.append_assoc]
  rw [decItem]
  simp only [h4, h5, decodeFmt_code]
  have hk0 : ¬ k = 0 := by omega
  simp only [hk0, if_false, List.length_append, beEnc_length]
  have h1 : ¬ (k + (payload.length + rest.length) < k) := by omega
  simp only [h1, if_false, List.take_left' (beEnc_length k _), List.drop_left' (beEnc_length k _),
    beDec_beEnc k _ kn]
  have h2 : ¬ ((payload ++ rest).length < payload.length) := by simp
  cases f with
  | list => exact absurd rfl hf
  | _ =>
    simp only [← hlen, h2, if_false, List.take_left' rfl, List.drop_left' rfl, hd]

end Secs

namespace Secs

/-! ### leaves: what the encoder writes is what `decPayload` reads -/

theorem map_mod_id (vs : List Nat) (h : ∀ v ∈ vs, v < 256) : vs.map (· % 256) = vs := by
  induction vs with
  | nil => rfl
  | cons v r ih =>
    simp only [List.map_cons]
    rw [Nat.mod_eq_of_lt (h v (by simp)), ih (fun x hx => h x (by simp [hx]))]

theorem map_bool_roundtrip (vs : List Bool) :
    (vs.map (fun b => if b then 1 else 0)).map (fun b : Nat => Slot.val (b != 0)) = vs.map Slot.val := by
  induction vs with
  | nil => rfl
  | cons v r ih => cases v <;> simp [ih]

theorem map_map_id {α β} (f : α → β) (g : β → α) (vs : List α) (h : ∀ v ∈ vs, g (f v) = v) :
    (vs.map f).map g = vs := by
  induction vs with
  | nil => rfl
  | cons v r ih =>
    simp only [List.map_cons]
    rw [h v (by simp), ih (fun x hx => h x (by simp [hx]))]

theorem all_map {α β} (p : β → Bool) (f : α → β) (vs : List α) (h : ∀ v ∈ vs, p (f v) = true) :
    (vs.map f).all p = true := by
  simp only [List.all_eq_true, List.mem_map]
  rintro _ ⟨v, hv, rfl⟩
  exact h v hv

/-- integers -/
theorem decPayload_int (f : Fmt) (w : Nat) (hf : intFmt? w = some f) (vs : List Int)
    (hr : ∀ v ∈ vs, intInRange w v = true) :
    decPayload f (vs.flatMap (intBytes w)) = some (.int w (vs.map Slot.val)) := by
  have hlen : (vs.flatMap (intBytes w)).length = vs.length * w :=
    flatMap_length_const w _ vs (fun v _ => intBytes_length w v)
  have hw : (w = 1 ∨ w = 2 ∨ w = 4 ∨ w = 8) ∧ f.width = w ∧ (f = .i1 ∨ f = .i2 ∨ f = .i4 ∨ f = .i8) := by
    unfold intFmt? at hf
    split at hf <;> first | (injection hf with hf; subst hf; simp [Fmt.width]) | (simp at hf)
  obtain ⟨hw1, hw2, hw3⟩ := hw
  have hpos : 0 < w := by omega
  have hmod : (vs.length * w) % w = 0 := Nat.mul_mod_left _ _
  have hch : chunks w (vs.length * w) (vs.flatMap (intBytes w)) = vs.map (intBytes w) :=
    chunks_flatMap w hpos _ vs (fun v _ => intBytes_length w v) _ (by
      calc vs.length = vs.length * 1 := by omega
        _ ≤ vs.length * w := Nat.mul_le_mul_left _ hpos)
  have hmm : (vs.map (intBytes w)).map (fun c => Slot.val (toSigned w (beDec c))) = vs.map Slot.val := by
    rw [List.map_map]
    apply List.map_congr_left
    intro v hv
    simp [toSigned_intBytes w hw1 v (hr v hv)]
  rcases hw3 with rfl | rfl | rfl | rfl <;>
    simp only [decPayload, hw2, hlen, hmod, bne_self_eq_false, Bool.false_eq_true, if_false, hch, hmm] <;> simp_all

/-- unsigned integers -/
theorem decPayload_uint (f : Fmt) (w : Nat) (hf : uintFmt? w = some f) (vs : List Nat)
    (hr : ∀ v ∈ vs, uintInRange w v = true) :
    decPayload f (vs.flatMap (beEnc w)) = some (.uint w (vs.map Slot.val)) := by
  have hlen : (vs.flatMap (beEnc w)).length = vs.length * w :=
    flatMap_length_const w _ vs (fun v _ => beEnc_length w v)
  have hw : (w = 1 ∨ w = 2 ∨ w = 4 ∨ w = 8) ∧ f.width = w ∧ (f = .u1 ∨ f = .u2 ∨ f = .u4 ∨ f = .u8) := by
    unfold uintFmt? at hf
    split at hf <;> first | (injection hf with hf; subst hf; simp [Fmt.width]) | (simp at hf)
  obtain ⟨hw1, hw2, hw3⟩ := hw
  have hpos : 0 < w := by omega
  have hmod : (vs.length * w) % w = 0 := Nat.mul_mod_left _ _
  have hch : chunks w (vs.length * w) (vs.flatMap (beEnc w)) = vs.map (beEnc w) :=
    chunks_flatMap w hpos _ vs (fun v _ => beEnc_length w v) _ (by
      calc vs.length = vs.length * 1 := by omega
        _ ≤ vs.length * w := Nat.mul_le_mul_left _ hpos)
  have hmm : (vs.map (beEnc w)).map (fun c => Slot.val (beDec c)) = vs.map Slot.val := by
    rw [List.map_map]
    apply List.map_congr_left
    intro v hv
    have := hr v hv
    simp only [uintInRange, decide_eq_true_eq] at this
    have hp : 0 < 2 ^ (8 * w) := Nat.pow_pos (by omega)
    simp [beDec_beEnc w v (by rw [pow8]; omega)]
  rcases hw3 with rfl | rfl | rfl | rfl <;>
    simp only [decPayload, hw2, hlen, hmod, bne_self_eq_false, Bool.false_eq_true, if_false, hch, hmm] <;> simp_all

/-- floats (bit patterns) -/
theorem decPayload_float (f : Fmt) (w : Nat) (hf : floatFmt? w = some f) (vs : List Nat)
    (hr : ∀ v ∈ vs, (decide (v < 2 ^ (8 * w)) && FloatLib.isFinite w v) = true) :
    decPayload f (vs.flatMap (beEnc w)) = some (.float w (vs.map Slot.val)) := by
  have hlen : (vs.flatMap (beEnc w)).length = vs.length * w :=
    flatMap_length_const w _ vs (fun v _ => beEnc_length w v)
  have hw : (w = 4 ∨ w = 8) ∧ f.width = w ∧ (f = .f4 ∨ f = .f8) := by
    unfold floatFmt? at hf
    split at hf <;> first | (injection hf with hf; subst hf; simp [Fmt.width]) | (simp at hf)
  obtain ⟨hw1, hw2, hw3⟩ := hw
  have hpos : 0 < w := by omega
  have hmod : (vs.length * w) % w = 0 := Nat.mul_mod_left _ _
  have hch : chunks w (vs.length * w) (vs.flatMap (beEnc w)) = vs.map (beEnc w) :=
    chunks_flatMap w hpos _ vs (fun v _ => beEnc_length w v) _ (by
      calc vs.length = vs.length * 1 := by omega
        _ ≤ vs.length * w := Nat.mul_le_mul_left _ hpos)
  have hmm : (vs.map (beEnc w)).map beDec = vs := by
    apply map_map_id
    intro v hv
    have := hr v hv
    simp only [Bool.and_eq_true, decide_eq_true_eq] at this
    exact beDec_beEnc w v (by rw [pow8]; exact this.1)
  have hall : vs.all (FloatLib.isFinite w) = true := by
    simp only [List.all_eq_true]
    intro v hv
    have := hr v hv
    simp only [Bool.and_eq_true] at this
    exact this.2
  rcases hw3 with rfl | rfl <;>
    simp only [decPayload, hw2, hlen, hmod, bne_self_eq_false, Bool.false_eq_true, if_false, hch, hmm, hall, if_true]

end Secs
