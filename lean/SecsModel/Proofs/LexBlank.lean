/-
Lexer locality in front of any blank (towards C08: white space between two tokens of a line).
Two texts that are equal up to their last byte, which is a blank (space, tab, CR or LF) in both,
are scanned alike whatever follows them - as long as the scan does not run into that blank inside
a string, a size declaration or a comment. `SBL x y` ("same but last").
Part 1: the relation, byte runs, rune decoding, skipping, the header matchers.
-/
import SecsModel.Proofs.LexScan
namespace Secs
namespace Lex

/-- equal up to the last byte, which is a blank in both -/
def SBL (x y : Bytes) : Prop := ∃ pre w1 w2, x = pre ++ [w1] ∧ y = pre ++ [w2] ∧ isBlank w1 = true ∧ isBlank w2 = true

theorem SBL.ne_nil {x y : Bytes} (h : SBL x y) : x ≠ [] ∧ y ≠ [] := by
  obtain ⟨pre, w1, w2, rfl, rfl, _, _⟩ := h; simp

theorem SBL.length_eq {x y : Bytes} (h : SBL x y) : x.length = y.length := by
  obtain ⟨pre, w1, w2, rfl, rfl, _, _⟩ := h; simp

theorem SBL.length_pos {x y : Bytes} (h : SBL x y) : 0 < x.length := by
  obtain ⟨pre, w1, w2, rfl, rfl, _, _⟩ := h; simp

theorem SBL.symm {x y : Bytes} (h : SBL x y) : SBL y x := by
  obtain ⟨pre, w1, w2, rfl, rfl, h1, h2⟩ := h; exact ⟨pre, w2, w1, rfl, rfl, h2, h1⟩

theorem SBL.refl_of {pre : Bytes} {w : Nat} (hw : isBlank w = true) : SBL (pre ++ [w]) (pre ++ [w]) :=
  ⟨pre, w, w, rfl, rfl, hw, hw⟩

/-- both start with the same byte, or both are a single blank -/
theorem SBL.cases {x y : Bytes} (h : SBL x y) :
    (∃ w1 w2, x = [w1] ∧ y = [w2] ∧ isBlank w1 = true ∧ isBlank w2 = true) ∨
    (∃ c x' y', x = c :: x' ∧ y = c :: y' ∧ SBL x' y') := by
  obtain ⟨pre, w1, w2, rfl, rfl, h1, h2⟩ := h
  cases pre with
  | nil => exact Or.inl ⟨w1, w2, rfl, rfl, h1, h2⟩
  | cons c pre' => exact Or.inr ⟨c, pre' ++ [w1], pre' ++ [w2], rfl, rfl, pre', w1, w2, rfl, rfl, h1, h2⟩

/-- a first byte that is no blank is the same in both, and the rests are related -/
theorem SBL.cons_nb {c d : Nat} {x y : Bytes} (h : SBL (c :: x) (d :: y)) (hc : isBlank c = false) :
    c = d ∧ SBL x y := by
  rcases h.cases with ⟨w1, w2, e1, _, hw1, _⟩ | ⟨c', x', y', e1, e2, h'⟩
  · injection e1 with e1 _; rw [e1, hw1] at hc; cases hc
  · injection e1 with a1 a2; injection e2 with b1 b2
    subst a1 a2 b2
    exact ⟨b1.symm, h'⟩

theorem SBL.head_eq_or_blank {c d : Nat} {x y : Bytes} (h : SBL (c :: x) (d :: y)) :
    (c = d ∧ SBL x y) ∨ (x = [] ∧ y = [] ∧ isBlank c = true ∧ isBlank d = true) := by
  rcases h.cases with ⟨w1, w2, e1, e2, hw1, hw2⟩ | ⟨c', x', y', e1, e2, h'⟩
  · injection e1 with a1 a2; injection e2 with b1 b2
    subst a1 b1
    exact Or.inr ⟨a2, b2, hw1, hw2⟩
  · injection e1 with a1 a2; injection e2 with b1 b2
    subst a1 a2 b2
    exact Or.inl ⟨b1.symm, h'⟩

theorem SBL.drop {x y : Bytes} (h : SBL x y) (n : Nat) (hn : n < x.length) : SBL (x.drop n) (y.drop n) := by
  obtain ⟨pre, w1, w2, rfl, rfl, h1, h2⟩ := h
  simp only [List.length_append, List.length_singleton] at hn
  refine ⟨pre.drop n, w1, w2, ?_, ?_, h1, h2⟩
  · rw [List.drop_append_of_le_length (by omega)]
  · rw [List.drop_append_of_le_length (by omega)]

theorem SBL.take {x y : Bytes} (h : SBL x y) (n : Nat) (hn : n < x.length) : x.take n = y.take n := by
  obtain ⟨pre, w1, w2, rfl, rfl, h1, h2⟩ := h
  simp only [List.length_append, List.length_singleton] at hn
  rw [List.take_append_of_le_length (by omega), List.take_append_of_le_length (by omega)]

theorem blank_cases {w : Nat} (h : isBlank w = true) : w = 32 ∨ w = 9 ∨ w = 13 ∨ w = 10 := by
  simp [isBlank] at h
  omega

/-- a class of bytes that holds no blank -/
def NoBlank (p : Nat → Bool) : Prop := p 32 = false ∧ p 9 = false ∧ p 13 = false ∧ p 10 = false

theorem NoBlank.of_blank {p : Nat → Bool} (hp : NoBlank p) {w : Nat} (hw : isBlank w = true) : p w = false := by
  rcases blank_cases hw with rfl | rfl | rfl | rfl
  · exact hp.1
  · exact hp.2.1
  · exact hp.2.2.1
  · exact hp.2.2.2

/-- a scan that cannot pass a blank: same result, related rests -/
theorem spanB_sbl (p : Nat → Bool) (hp : NoBlank p) : ∀ (x y b1 b2 : Bytes), SBL x y →
    spanB p (x ++ b1) = ((spanB p x).1, (spanB p x).2 ++ b1) ∧
    spanB p (y ++ b2) = ((spanB p x).1, (spanB p y).2 ++ b2) ∧
    SBL (spanB p x).2 (spanB p y).2 ∧ (spanB p x).1.length + (spanB p x).2.length = x.length
  | [], y, _, _, h => absurd rfl h.ne_nil.1
  | c :: x, [], _, _, h => absurd rfl h.ne_nil.2
  | c :: x, d :: y, b1, b2, h => by
    rcases h.head_eq_or_blank with ⟨rfl, h'⟩ | ⟨rfl, rfl, hc, hd⟩
    · have ih := spanB_sbl p hp x y b1 b2 h'
      simp only [List.cons_append, spanB]
      by_cases hpc : p c = true
      · simp only [hpc, if_true, ih.1, ih.2.1]
        exact ⟨trivial, trivial, ih.2.2.1, by simp; have := ih.2.2.2; omega⟩
      · simp only [hpc, Bool.false_eq_true, if_false]
        exact ⟨rfl, rfl, h, by simp⟩
    · have h1 := hp.of_blank hc
      have h2 := hp.of_blank hd
      simp only [List.cons_append, List.nil_append, spanB, h1, h2, Bool.false_eq_true, if_false]
      exact ⟨trivial, trivial, h, by simp⟩

open Utf8 in
theorem isBlank_lt {w : Nat} (h : isBlank w = true) : w < 128 ∧ isCont w = false ∧ Utf8.isSpace w = true := by
  rcases blank_cases h with rfl | rfl | rfl | rfl <;> decide

open Utf8 in
/-- decoding the first rune never needs a byte behind a byte that continues no rune -/
theorem decodeRune_stop (pre : Bytes) (w : Nat) (hw : w < 128) (b : Bytes) :
    decodeRune (pre ++ [w] ++ b) = decodeRune (pre ++ [w]) := by
  have hcw : isCont w = false := by simp [isCont]; omega
  rcases pre with _ | ⟨b0, _ | ⟨b1, _ | ⟨b2, _ | ⟨b3, r⟩⟩⟩⟩
  · simp only [List.nil_append, List.cons_append, decodeRune]
    repeat' split
    all_goals first | rfl | (simp_all; done) | (simp_all; omega)
  · simp only [List.cons_append, List.nil_append, decodeRune]
    repeat' split
    all_goals first | rfl | (simp_all; done) | (simp_all; omega)
  · simp only [List.cons_append, List.nil_append, decodeRune]
    repeat' split
    all_goals first | rfl | (simp_all; done) | (simp_all; omega)
  · simp only [List.cons_append, List.nil_append, decodeRune]
  · simp only [List.cons_append, List.nil_append, decodeRune]

open Utf8 in
/-- … and, when the text does not consist of that byte alone, not that byte either -/
theorem decodeRune_last (c : Nat) (pre : Bytes) (w1 w2 : Nat) (k1 : w1 < 128) (k2 : w2 < 128) :
    decodeRune (c :: pre ++ [w1]) = decodeRune (c :: pre ++ [w2]) ∧ (decodeRune (c :: pre ++ [w1])).2 < (c :: pre ++ [w1]).length := by
  have h1 : isCont w1 = false := by simp [isCont]; omega
  have h2 : isCont w2 = false := by simp [isCont]; omega
  rcases pre with _ | ⟨b1, _ | ⟨b2, _ | ⟨b3, r⟩⟩⟩
  · simp only [List.cons_append, List.nil_append, decodeRune]
    constructor
    · repeat' split
      all_goals first | rfl | (simp_all; done) | (simp_all; omega)
    · repeat' split
      all_goals first | (simp; done) | (simp_all; done) | (simp_all; omega)
  · simp only [List.cons_append, List.nil_append, decodeRune]
    constructor
    · repeat' split
      all_goals first | rfl | (simp_all; done) | (simp_all; omega)
    · repeat' split
      all_goals first | (simp; done) | (simp_all; done) | (simp_all; omega)
  · simp only [List.cons_append, List.nil_append, decodeRune]
    constructor
    · repeat' split
      all_goals first | rfl | (simp_all; done) | (simp_all; omega)
    · repeat' split
      all_goals first | (simp; done) | (simp_all; done) | (simp_all; omega)
  · simp only [List.cons_append, decodeRune]
    constructor
    · trivial
    · repeat' split
      all_goals first | (simp; done) | (simp; omega) | (simp_all; done) | (simp_all; omega)

section
open Utf8
theorem decodeRune_sbl (c : Nat) (x y b1 b2 : Bytes) (h : SBL (c :: x) (c :: y)) (hc : isBlank c = false) :
    decodeRune (c :: x ++ b1) = decodeRune (c :: x) ∧ decodeRune (c :: y ++ b2) = decodeRune (c :: x) ∧
      decodeRune (c :: y) = decodeRune (c :: x) ∧ (decodeRune (c :: x)).2 < (c :: x).length := by
  obtain ⟨_, h'⟩ := h.cons_nb hc
  obtain ⟨pre, w1, w2, rfl, rfl, h1, h2⟩ := h'
  obtain ⟨k1, _, _⟩ := isBlank_lt h1
  obtain ⟨k2, _, _⟩ := isBlank_lt h2
  obtain ⟨e1, e2⟩ := decodeRune_last c pre w1 w2 k1 k2
  have a1 := decodeRune_stop (c :: pre) w1 k1 b1
  have a2 := decodeRune_stop (c :: pre) w2 k2 b2
  simp only [List.cons_append, List.append_assoc] at a1 a2 e1 e2 ⊢
  exact ⟨a1, by rw [a2, e1], e1.symm, e2⟩

theorem skipR_blank (m : Mode) (w : Nat) (hw : isBlank w = true) (r : Bytes) : skipR m (w :: r) = skipR m r := by
  rw [skipR_cons]; simp [hw]

theorem skipR_sbl (m : Mode) (b1 b2 : Bytes) : ∀ (n : Nat) (x y : Bytes), x.length ≤ n → SBL x y →
    (skipR m x ≠ [] → skipR m (x ++ b1) = skipR m x ++ b1 ∧ skipR m (y ++ b2) = skipR m y ++ b2 ∧ SBL (skipR m x) (skipR m y)) ∧
    (skipR m x = [] → skipR m y = [] ∧ skipR m (x ++ b1) = skipR m b1 ∧ skipR m (y ++ b2) = skipR m b2)
  | 0, x, y, hn, h => by have := h.length_pos; omega
  | n + 1, [], y, _, h => absurd rfl h.ne_nil.1
  | n + 1, c :: x, [], _, h => absurd rfl h.ne_nil.2
  | n + 1, c :: x, d :: y, hn, h => by
    have hxn : x.length ≤ n := by simp at hn; omega
    rcases h.head_eq_or_blank with ⟨rfl, h'⟩ | ⟨rfl, rfl, hc, hd⟩
    · have ih := skipR_sbl m b1 b2 n x y hxn h'
      rw [show (c :: x) ++ b1 = c :: (x ++ b1) from rfl, show (c :: y) ++ b2 = c :: (y ++ b2) from rfl,
        skipR_cons m c (x ++ b1), skipR_cons m c x, skipR_cons m c (y ++ b2), skipR_cons m c y]
      by_cases hb : isBlank c = true
      · simp only [hb, if_true]; exact ih
      · simp only [hb, Bool.false_eq_true, if_false]
        have hb' : isBlank c = false := by simpa using hb
        have stop : (c :: x ≠ [] → c :: (x ++ b1) = c :: x ++ b1 ∧ c :: (y ++ b2) = c :: y ++ b2 ∧ SBL (c :: x) (c :: y)) ∧
            (c :: x = [] → c :: y = [] ∧ c :: (x ++ b1) = skipR m b1 ∧ c :: (y ++ b2) = skipR m b2) :=
          ⟨fun _ => ⟨rfl, rfl, h⟩, fun hnil => by cases hnil⟩
        cases m with
        | text => exact stop
        | header =>
          simp only
          by_cases hc : c < 128
          · simp only [hc, if_true]
            by_cases hs : Utf8.isSpace c = true
            · simp only [hs, if_true]; exact ih
            · simp only [hs, Bool.false_eq_true, if_false]; exact stop
          · simp only [hc, if_false]
            obtain ⟨d1, d2, d3, d4⟩ := decodeRune_sbl c x y b1 b2 h hb'
            simp only [List.cons_append] at d1 d2
            rw [d1, d2, d3]
            by_cases hs : Utf8.isSpace (Utf8.decodeRune (c :: x)).1 = true
            · simp only [hs, if_true]
              have hw := decodeRune_width_pos c x
              have e1 : (c :: (x ++ b1)).drop (Utf8.decodeRune (c :: x)).2 = (c :: x).drop (Utf8.decodeRune (c :: x)).2 ++ b1 := by
                rw [show c :: (x ++ b1) = (c :: x) ++ b1 from rfl, List.drop_append_of_le_length (by omega)]
              have e2 : (c :: (y ++ b2)).drop (Utf8.decodeRune (c :: x)).2 = (c :: y).drop (Utf8.decodeRune (c :: x)).2 ++ b2 := by
                rw [show c :: (y ++ b2) = (c :: y) ++ b2 from rfl, List.drop_append_of_le_length (by have hl := h.length_eq; rw [← hl]; omega)]
              rw [e1, e2]
              exact skipR_sbl .header b1 b2 n _ _ (by simp only [List.length_drop, List.length_cons]; simp at hn; omega) (h.drop _ d4)
            · simp only [hs, Bool.false_eq_true, if_false]; exact stop
    · simp only [List.cons_append, List.nil_append, skipR_blank m c hc, skipR_blank m d hd, skipR_nil]
      refine ⟨fun hne => absurd rfl hne, fun _ => ?_⟩
      simp
end

/-! ### the matchers of the header state -/
/-- from a test that only non-blank bytes pass -/
theorem nb_of {c : Nat} {P : Nat → Bool} (hP : NoBlank P) (h : P c = true) : isBlank c = false := by
  cases hb : isBlank c with
  | false => rfl
  | true => rw [hP.of_blank hb] at h; cases h

theorem matchW_canon (pre : Bytes) (w : Nat) (hw : isBlank w = true) (b : Bytes) :
    matchW (pre ++ w :: b) = matchW (pre ++ [10]) := by
  have f1 : w ≠ 87 := by rcases blank_cases hw with rfl | rfl | rfl | rfl <;> decide
  have f2 : w ≠ 119 := by rcases blank_cases hw with rfl | rfl | rfl | rfl <;> decide
  have f3 : w ≠ 91 := by rcases blank_cases hw with rfl | rfl | rfl | rfl <;> decide
  have f4 : w ≠ 93 := by rcases blank_cases hw with rfl | rfl | rfl | rfl <;> decide
  rcases pre with _ | ⟨c0, _ | ⟨c1, _ | ⟨c2, r⟩⟩⟩
  · cases b <;> simp only [List.nil_append, matchW] <;> split <;> simp_all
  · cases b with
    | nil => simp only [List.cons_append, List.nil_append, matchW]; split <;> split <;> simp_all
    | cons b0 b' => simp only [List.cons_append, List.nil_append, matchW]; split <;> split <;> simp_all
  · cases b with
    | nil => simp only [List.cons_append, List.nil_append, matchW]; split <;> split <;> simp_all
    | cons b0 b' => simp only [List.cons_append, List.nil_append, matchW]; split <;> split <;> simp_all
  · simp only [List.cons_append, matchW]
    split <;> split <;> simp_all

theorem matchW_sbl (x y b1 b2 : Bytes) (h : SBL x y) :
    matchW (x ++ b1) = matchW (y ++ b2) ∧ ∀ v, matchW (x ++ b1) = some v → v.length < x.length := by
  obtain ⟨pre, w1, w2, rfl, rfl, h1, h2⟩ := h
  have a1 := matchW_canon pre w1 h1 b1
  have a2 := matchW_canon pre w2 h2 b2
  simp only [List.append_assoc, List.singleton_append]
  refine ⟨by rw [a1, a2], ?_⟩
  intro v hv
  rw [a1] at hv
  simpa using matchW_len (pre ++ [10]) v (endsLF_snoc pre) hv

theorem noBlank_digit : NoBlank isDigitB := ⟨by decide, by decide, by decide, by decide⟩
theorem noBlank_word : NoBlank isWordB := ⟨by decide, by decide, by decide, by decide⟩
theorem noBlank_hex : NoBlank isHexB := ⟨by decide, by decide, by decide, by decide⟩

/-- one-sided form of `spanB_sbl` -/
theorem spanB_sbl1 (p : Nat → Bool) (hp : NoBlank p) (x y b : Bytes) (h : SBL x y) :
    spanB p (x ++ b) = ((spanB p y).1, (spanB p x).2 ++ b) ∧ (spanB p x).1 = (spanB p y).1 ∧
    SBL (spanB p x).2 (spanB p y).2 ∧ (spanB p y).1.length + (spanB p y).2.length = y.length := by
  obtain ⟨a1, a2, a3, a4⟩ := spanB_sbl p hp x y b [] h
  obtain ⟨c1, c2, c3, c4⟩ := spanB_sbl p hp y x [] [] h.symm
  simp only [List.append_nil] at a2 c1 c2
  have e : (spanB p x).1 = (spanB p y).1 := by
    have := congrArg Prod.fst a2
    simp at this
    exact this.symm
  exact ⟨by rw [a1, e], e, a3, c4⟩

theorem sbl_head_nb {x y : Bytes} (h : SBL x y) (c : Nat) (r : Bytes) (hx : x = c :: r) (hc : isBlank c = false) :
    ∃ r', y = c :: r' ∧ SBL r r' := by
  subst hx
  cases y with
  | nil => exact absurd rfl h.ne_nil.2
  | cons d r' =>
    obtain ⟨rfl, h'⟩ := h.cons_nb hc
    exact ⟨r', rfl, h'⟩

theorem matchSF_sbl (x y b : Bytes) (h : SBL x y) : matchSF (x ++ b) = matchSF y := by
  cases x with
  | nil => exact absurd rfl h.ne_nil.1
  | cons c r =>
    by_cases hc : (c == 83 || c == 115) = true
    · have hcb : isBlank c = false := nb_of (P := fun c => c == 83 || c == 115) ⟨by decide, by decide, by decide, by decide⟩ hc
      obtain ⟨r', rfl, hr⟩ := sbl_head_nb h c r rfl hcb
      obtain ⟨s1, e1, l1, _⟩ := spanB_sbl1 isDigitB noBlank_digit r r' b hr
      simp only [List.cons_append, matchSF, hc, if_true, s1]
      split
      · rfl
      · cases hr1 : (spanB isDigitB r).2 with
        | nil => rw [hr1] at l1; exact absurd rfl l1.ne_nil.1
        | cons f r2 =>
          cases hr1' : (spanB isDigitB r').2 with
          | nil => rw [hr1'] at l1; exact absurd rfl l1.ne_nil.2
          | cons f' r2' =>
            rw [hr1, hr1'] at l1
            simp only [List.cons_append]
            by_cases hf : (f == 70 || f == 102) = true
            · have hfb : isBlank f = false := nb_of (P := fun c => c == 70 || c == 102) ⟨by decide, by decide, by decide, by decide⟩ hf
              obtain ⟨rfl, hr2⟩ := l1.cons_nb hfb
              obtain ⟨s2, _, _, _⟩ := spanB_sbl1 isDigitB noBlank_digit r2 r2' b hr2
              simp only [hf, if_true, s2]
            · simp only [hf, Bool.false_eq_true, if_false]
              rcases l1.head_eq_or_blank with ⟨rfl, _⟩ | ⟨_, _, _, hfb'⟩
              · simp [hf]
              · have : (f' == 70 || f' == 102) = false := by
                  rcases blank_cases hfb' with rfl | rfl | rfl | rfl <;> decide
                simp [this]
    · have hy : ∃ d r', y = d :: r' ∧ (d == 83 || d == 115) = false := by
        cases y with
        | nil => exact absurd rfl h.ne_nil.2
        | cons d r' =>
          refine ⟨d, r', rfl, ?_⟩
          rcases h.head_eq_or_blank with ⟨rfl, _⟩ | ⟨_, _, _, hd⟩
          · simpa using hc
          · rcases blank_cases hd with rfl | rfl | rfl | rfl <;> decide
      obtain ⟨d, r', rfl, hd⟩ := hy
      have hc' : (c == 83 || c == 115) = false := by simpa using hc
      simp [matchSF, hc', hd]

theorem blank_ne {w : Nat} (hw : isBlank w = true) (k : Nat) (hk : isBlank k = false) : w ≠ k := by
  intro h; subst h; rw [hw] at hk; cases hk

theorem dirTail_canon (h : Nat) (pre : Bytes) (w : Nat) (hw : isBlank w = true) (b : Bytes) :
    dirTail h (pre ++ w :: b) = dirTail h (pre ++ [10]) := by
  have f1 : w ≠ 45 := blank_ne hw 45 (by decide)
  have f2 : w ≠ 62 := blank_ne hw 62 (by decide)
  have f3 : w ≠ 60 := blank_ne hw 60 (by decide)
  have f4 : w ≠ 69 := blank_ne hw 69 (by decide)
  have f5 : w ≠ 101 := blank_ne hw 101 (by decide)
  rcases pre with _ | ⟨c0, _ | ⟨c1, _ | ⟨c2, _ | ⟨c3, r⟩⟩⟩⟩
  · rcases b with _ | ⟨b0, _ | ⟨b1, _ | ⟨b2, b'⟩⟩⟩ <;>
    · simp only [List.cons_append, List.nil_append, dirTail]
      repeat' split
      all_goals first | rfl | (simp_all; done) | (simp_all; omega) | grind
  · rcases b with _ | ⟨b0, _ | ⟨b1, b'⟩⟩ <;>
    · simp only [List.cons_append, List.nil_append, dirTail]
      repeat' split
      all_goals first | rfl | (simp_all; done) | (simp_all; omega) | grind
  · rcases b with _ | ⟨b0, b'⟩ <;>
    · simp only [List.cons_append, List.nil_append, dirTail]
      repeat' split
      all_goals first | rfl | (simp_all; done) | (simp_all; omega) | grind
  · rcases b with _ | ⟨b0, b'⟩ <;>
    · simp only [List.cons_append, List.nil_append, dirTail]
      repeat' split
      all_goals first | rfl | (simp_all; done) | (simp_all; omega) | grind
  · simp only [List.cons_append, dirTail]
    repeat' split
    all_goals first | rfl | (simp_all; done) | (simp_all; omega) | grind

theorem matchDir_canon (pre : Bytes) (w : Nat) (hw : isBlank w = true) (b : Bytes) :
    matchDir (pre ++ w :: b) = matchDir (pre ++ [10]) := by
  cases pre with
  | nil =>
    have f1 : (w == 72 || w == 104) = false := by rcases blank_cases hw with rfl | rfl | rfl | rfl <;> decide
    simp [matchDir_cons, f1]
  | cons c r =>
    rw [List.cons_append, List.cons_append, matchDir_cons, matchDir_cons, dirTail_canon c r w hw b]

theorem startsWith_canon (pre : Bytes) (w : Nat) (hw : isBlank w = true) (b : Bytes) :
    startsWith [47, 47] (pre ++ w :: b) = startsWith [47, 47] (pre ++ [10]) := by
  have f1 : w ≠ 47 := blank_ne hw 47 (by decide)
  rcases pre with _ | ⟨c0, _ | ⟨c1, r⟩⟩
  · cases b <;> simp [startsWith, f1]
  · cases b <;> simp [startsWith, f1]
  · simp [startsWith]

section
open Utf8
/-- from "the blank and what follows it do not matter" to the two-sided form -/
theorem canon_to_sbl {α : Type} (f : Bytes → α)
    (hcanon : ∀ (pre : Bytes) (w : Nat), isBlank w = true → ∀ b, f (pre ++ w :: b) = f (pre ++ [10]))
    (x y b : Bytes) (h : SBL x y) : f (x ++ b) = f y := by
  obtain ⟨pre, w1, w2, rfl, rfl, h1, h2⟩ := h
  have a1 := hcanon pre w1 h1 b
  have a2 := hcanon pre w2 h2 []
  simp only [List.append_assoc, List.singleton_append]
  rw [a1, ← a2]

theorem matchW_sbl1 (x y b : Bytes) (h : SBL x y) : matchW (x ++ b) = matchW y := canon_to_sbl matchW matchW_canon x y b h
theorem matchDir_sbl1 (x y b : Bytes) (h : SBL x y) : matchDir (x ++ b) = matchDir y := canon_to_sbl matchDir matchDir_canon x y b h
theorem startsWith_sbl1 (x y b : Bytes) (h : SBL x y) : startsWith [47, 47] (x ++ b) = startsWith [47, 47] y :=
  canon_to_sbl (startsWith [47, 47]) startsWith_canon x y b h

/-- a scanner's answer on a blank-terminated text is as long as on the same text terminated by a line feed -/
theorem sbl_lf {x y : Bytes} (h : SBL x y) : ∃ pre, SBL y (pre ++ [10]) ∧ y.length = (pre ++ [10]).length ∧ EndsLF (pre ++ [10]) := by
  obtain ⟨pre, w1, w2, rfl, rfl, h1, h2⟩ := h
  exact ⟨pre, ⟨pre, w2, 10, rfl, rfl, h2, by decide⟩, by simp, endsLF_snoc pre⟩

theorem scanName_sbl (b : Bytes) : ∀ (f2 : Nat) (x y : Bytes), y.length ≤ f2 → SBL x y →
    ∀ f1, (x ++ b).length ≤ f1 → scanName f1 (x ++ b) = scanName f2 y ∧ (scanName f2 y).length < y.length
  | 0, x, y, hf, h => by have := h.symm.length_pos; omega
  | f2 + 1, x, y, hf, h => by
    intro f1 hf1
    cases x with
    | nil => exact absurd rfl h.ne_nil.1
    | cons c r =>
      cases y with
      | nil => exact absurd rfl h.ne_nil.2
      | cons d r' =>
        cases f1 with
        | zero => simp at hf1
        | succ f1 =>
          rcases h.head_eq_or_blank with ⟨rfl, h'⟩ | ⟨rfl, rfl, hc, hd⟩
          · by_cases hcb : isBlank c = true
            · obtain ⟨k1, _, k3⟩ := isBlank_lt hcb
              have e : ∀ t, decodeRune (c :: t) = (c, 1) := by intro t; simp [decodeRune, k1]
              simp [scanName, e, k3]
            · have hcb' : isBlank c = false := by simpa using hcb
              obtain ⟨d1, d2, d3, d4⟩ := decodeRune_sbl c r r' b [] h hcb'
              have sw := startsWith_sbl1 (c :: r) (c :: r') b h
              simp only [List.cons_append] at d1 sw
              simp only [List.cons_append, scanName, d1, d3, sw]
              split
              · simp
              · split
                · simp
                · have hpos := decodeRune_width_pos c r
                  have hl := h.length_eq
                  have hd : SBL ((c :: r).drop (decodeRune (c :: r)).2) ((c :: r').drop (decodeRune (c :: r)).2) := h.drop _ d4
                  have hda : (c :: (r ++ b)).drop (decodeRune (c :: r)).2 = (c :: r).drop (decodeRune (c :: r)).2 ++ b :=
                    List.drop_append_of_le_length (l₁ := c :: r) (by omega)
                  have hta : (c :: (r ++ b)).take (decodeRune (c :: r)).2 = (c :: r').take (decodeRune (c :: r)).2 := by
                    rw [show c :: (r ++ b) = (c :: r) ++ b from rfl, List.take_append_of_le_length (by omega)]
                    exact h.take _ d4
                  obtain ⟨e1, e2⟩ := scanName_sbl b f2 _ _ (by
                      simp only [List.length_drop, List.length_cons] at hf hl ⊢; omega) hd f1 (by
                      rw [← hda]; simp only [List.length_drop, List.length_cons, List.length_append] at hf1 ⊢; omega)
                  rw [hda, hta, e1]
                  refine ⟨rfl, ?_⟩
                  simp only [List.length_append, List.length_take, List.length_drop, List.length_cons] at e2 hl d4 ⊢
                  omega
          · obtain ⟨k1, _, k3⟩ := isBlank_lt hc
            obtain ⟨j1, _, j3⟩ := isBlank_lt hd
            have e : ∀ (w : Nat) t, w < 128 → decodeRune (w :: t) = (w, 1) := by intro w t hw; simp [decodeRune, hw]
            simp [scanName, e c _ k1, e d _ j1, k3, j3]
end

/-- a list that holds a line feed: up to the first one, and what follows -/
theorem split_at_lf : ∀ (p : Bytes), 10 ∈ p → ∃ a c, p = a ++ 10 :: c ∧ ∀ x ∈ a, x ≠ 10
  | [], h => by simp at h
  | d :: p, h => by
    by_cases hd : d = 10
    · subst hd; exact ⟨[], p, rfl, by simp⟩
    · have : 10 ∈ p := by
        rcases List.mem_cons.mp h with h | h
        · exact absurd h.symm hd
        · exact h
      obtain ⟨a, c, rfl, ha⟩ := split_at_lf p this
      refine ⟨d :: a, c, rfl, ?_⟩
      intro x hx
      rcases List.mem_cons.mp hx with rfl | hx
      · exact hd
      · exact ha x hx

theorem scanComment_at (a rest : Bytes) (ha : ∀ x ∈ a, x ≠ 10) :
    scanComment (a ++ 10 :: rest) = (trimRight (fun b => b == 32 || b == 9 || b == 13) a, false) := by
  unfold scanComment
  rw [spanB_stop' (· != 10) a 10 rest (by intro x hx; simpa using ha x hx) (by decide)]

/-- a comment that is closed by a line feed inside the text, or by the line feed that ends both
texts, is the same comment whatever follows -/
theorem scanComment_pair (p : Bytes) (w1 w2 : Nat) (b : Bytes)
    (h : 10 ∈ p ∨ (w1 = 10 ∧ w2 = 10)) :
    scanComment (p ++ w1 :: b) = scanComment (p ++ [w2]) ∧ (scanComment (p ++ [w2])).1.length < (p ++ [w2]).length := by
  by_cases hp : 10 ∈ p
  · obtain ⟨a, c, rfl, ha⟩ := split_at_lf p hp
    have e1 : (a ++ 10 :: c) ++ w1 :: b = a ++ 10 :: (c ++ w1 :: b) := by simp
    have e2 : (a ++ 10 :: c) ++ [w2] = a ++ 10 :: (c ++ [w2]) := by simp
    rw [e1, e2, scanComment_at a _ ha, scanComment_at a _ ha]
    refine ⟨rfl, ?_⟩
    obtain ⟨t, ht, _⟩ := trimRight_split (fun b => b == 32 || b == 9 || b == 13) a
    have := congrArg List.length ht
    simp only [List.length_append, List.length_cons] at this ⊢
    omega
  · rcases h with h | ⟨rfl, rfl⟩
    · exact absurd h hp
    · have ha : ∀ x ∈ p, x ≠ 10 := fun x hx h10 => hp (h10 ▸ hx)
      rw [scanComment_at p b ha, scanComment_at p [] ha]
      refine ⟨rfl, ?_⟩
      obtain ⟨t, ht, _⟩ := trimRight_split (fun b => b == 32 || b == 9 || b == 13) p
      have := congrArg List.length ht
      simp only [List.length_append, List.length_cons, List.length_nil] at this ⊢
      omega

open Utf8 in
theorem hdrScan_sbl (c : Nat) (r r' b : Bytes) (h : SBL (c :: r) (c :: r')) (hc : isBlank c = false)
    (hC : startsWith [47, 47] (c :: r') = true → scanComment (c :: r ++ b) = scanComment (c :: r')) :
    hdrScan (c :: r ++ b) = hdrScan (c :: r') := by
  have e1 : startsWith [47, 47] (c :: (r ++ b)) = startsWith [47, 47] (c :: r') := startsWith_sbl1 (c :: r) (c :: r') b h
  have e3 : matchSF (c :: (r ++ b)) = matchSF (c :: r') := matchSF_sbl (c :: r) (c :: r') b h
  have e4 : matchW (c :: (r ++ b)) = matchW (c :: r') := matchW_sbl1 (c :: r) (c :: r') b h
  have e5 : matchDir (c :: (r ++ b)) = matchDir (c :: r') := matchDir_sbl1 (c :: r) (c :: r') b h
  obtain ⟨d1, _, d3, d4⟩ := decodeRune_sbl c r r' b [] h hc
  have hl := h.length_eq
  have hpos := decodeRune_width_pos c r
  have hmax : max (decodeRune (c :: r)).2 1 = (decodeRune (c :: r)).2 := by omega
  have e7 : (c :: (r ++ b)).take (decodeRune (c :: r)).2 = (c :: r').take (decodeRune (c :: r)).2 := by
    rw [show c :: (r ++ b) = (c :: r) ++ b from rfl, List.take_append_of_le_length (by omega)]
    exact h.take _ d4
  have e8 : (c :: (r ++ b)).drop (decodeRune (c :: r)).2 = (c :: r).drop (decodeRune (c :: r)).2 ++ b :=
    List.drop_append_of_le_length (l₁ := c :: r) (by omega)
  obtain ⟨e9, _⟩ := scanName_sbl b (c :: r').length _ _ (by simp) (h.drop _ d4) (c :: (r ++ b)).length (by
    rw [← e8]; simp)
  simp only [List.cons_append] at d1 hC
  unfold hdrScan
  simp only [List.cons_append, e1, e3, e4, e5, d1, d3, hmax, e7, e8, e9]
  by_cases h1 : startsWith [47, 47] (c :: r') = true
  · simp only [h1, if_true, hC h1]
  · simp only [h1, Bool.false_eq_true, if_false]

/-! ### the scanners of the text state -/
section
open Utf8
theorem sbl_head_blank {x y : Bytes} (h : SBL x y) (c : Nat) (r : Bytes) (hx : x = c :: r) (hc : isBlank c = true) :
    ∃ d r', y = d :: r' ∧ isBlank d = true := by
  subst hx
  cases y with
  | nil => exact absurd rfl h.ne_nil.2
  | cons d r' =>
    rcases h.head_eq_or_blank with ⟨rfl, _⟩ | ⟨_, _, _, hd⟩
    · exact ⟨c, r', rfl, hc⟩
    · exact ⟨d, r', rfl, hd⟩

/-- a scanner that answers `none` on every text that starts with a blank or with a byte outside
its start set: both sides of a pair either start with the same non-blank byte or with blanks -/
theorem sbl_first {x y : Bytes} (h : SBL x y) :
    (∃ c r r', x = c :: r ∧ y = c :: r' ∧ isBlank c = false ∧ SBL r r') ∨
    (∃ c d r r', x = c :: r ∧ y = d :: r' ∧ isBlank c = true ∧ isBlank d = true) := by
  cases x with
  | nil => exact absurd rfl h.ne_nil.1
  | cons c r =>
    cases hcb : isBlank c with
    | false =>
      obtain ⟨r', rfl, hr⟩ := sbl_head_nb h c r rfl hcb
      exact Or.inl ⟨c, r, r', rfl, rfl, hcb, hr⟩
    | true =>
      obtain ⟨d, r', rfl, hd⟩ := sbl_head_blank h c r rfl hcb
      exact Or.inr ⟨c, d, r, r', rfl, rfl, hcb, hd⟩

theorem matchIdx_blank (w : Nat) (hw : isBlank w = true) (t : Bytes) : matchIdx (w :: t) = none := by
  have : w ≠ 91 := blank_ne hw 91 (by decide)
  unfold matchIdx
  split
  · rename_i heq; injection heq with h1 _; exact absurd h1 this
  · rfl

theorem matchIdx_sbl (x y b : Bytes) (h : SBL x y) : matchIdx (x ++ b) = matchIdx y := by
  rcases sbl_first h with ⟨c, r, r', rfl, rfl, hcb, hr⟩ | ⟨c, d, r, r', rfl, rfl, hc, hd⟩
  · by_cases hc : c = 91
    · subst hc
      obtain ⟨s1, e1, l1, _⟩ := spanB_sbl1 isDigitB noBlank_digit r r' b hr
      simp only [List.cons_append, matchIdx, s1]
      split
      · rfl
      · cases hr1 : (spanB isDigitB r).2 with
        | nil => rw [hr1] at l1; exact absurd rfl l1.ne_nil.1
        | cons f r2 =>
          cases hr1' : (spanB isDigitB r').2 with
          | nil => rw [hr1'] at l1; exact absurd rfl l1.ne_nil.2
          | cons f' r2' =>
            rw [hr1, hr1'] at l1
            simp only [List.cons_append]
            rcases l1.head_eq_or_blank with ⟨rfl, _⟩ | ⟨_, _, hf, hf'⟩
            · split <;> split <;> simp_all
            · have n1 : f ≠ 93 := blank_ne hf 93 (by decide)
              have n2 : f' ≠ 93 := blank_ne hf' 93 (by decide)
              split <;> split <;> simp_all
    · have : ∀ t, matchIdx (c :: t) = none := by
        intro t
        unfold matchIdx
        split
        · rename_i heq; injection heq with h1 _; exact absurd h1 hc
        · rfl
      simp [this]
  · simp [matchIdx_blank c hc, matchIdx_blank d hd]

theorem matchIdxs_sbl (b : Bytes) : ∀ (f2 : Nat) (x y : Bytes), y.length ≤ f2 → SBL x y →
    ∀ f1, (x ++ b).length ≤ f1 → matchIdxs f1 (x ++ b) = matchIdxs f2 y
  | 0, x, y, hf, h => by have := h.symm.length_pos; omega
  | f2 + 1, x, y, hf, h => by
    intro f1 hf1
    cases f1 with
    | zero => simp at hf1; exact absurd hf1.1 h.ne_nil.1
    | succ f1 =>
      have e1 := matchIdx_sbl x y b h
      simp only [matchIdxs, e1]
      cases hg : matchIdx y with
      | none => rfl
      | some g =>
        obtain ⟨pre, hy, hl, hE⟩ := sbl_lf h
        have hg' : matchIdx (pre ++ [10]) = some g := by
          rw [← hg]; have := matchIdx_sbl (pre ++ [10]) y [] hy.symm; simpa using this
        obtain ⟨gl, gne⟩ := (matchIdx_lf (pre ++ [10]) [] hE).2 g hg'
        have gpos : 0 < g.length := List.length_pos_iff.mpr gne
        have hxl := h.length_eq
        simp only
        have hd : SBL (x.drop g.length) (y.drop g.length) := h.drop _ (by omega)
        have hda : (x ++ b).drop g.length = x.drop g.length ++ b := List.drop_append_of_le_length (by omega)
        rw [hda, matchIdxs_sbl b f2 _ _ (by simp; omega) hd f1 (by rw [← hda]; simp at hf1 ⊢; omega)]

theorem matchEllipsis_sbl (x y b : Bytes) (h : SBL x y) : matchEllipsis (x ++ b) = matchEllipsis y := by
  have hno : ∀ s : Bytes, (∀ t, s ≠ 46 :: 46 :: 46 :: t) → matchEllipsis s = none := by
    intro s hs
    unfold matchEllipsis
    split
    · rename_i r; exact absurd rfl (hs r)
    · rfl
  have nb46 : isBlank 46 = false := by decide
  by_cases hx : ∃ t, x = 46 :: 46 :: 46 :: t
  · obtain ⟨t, rfl⟩ := hx
    obtain ⟨y1, rfl, h1⟩ := sbl_head_nb h 46 _ rfl nb46
    obtain ⟨y2, rfl, h2⟩ := sbl_head_nb h1 46 _ rfl nb46
    obtain ⟨y3, rfl, h3⟩ := sbl_head_nb h2 46 _ rfl nb46
    simp only [List.cons_append, matchEllipsis, matchIdx_sbl t y3 b h3]
  · have hx' : ∀ t, x ≠ 46 :: 46 :: 46 :: t := fun t ht => hx ⟨t, ht⟩
    obtain ⟨pre, w1, w2, rfl, rfl, hw1, hw2⟩ := h
    have n1 : w1 ≠ 46 := blank_ne hw1 46 nb46
    have n2 : w2 ≠ 46 := blank_ne hw2 46 nb46
    have hxb : ∀ t, pre ++ [w1] ++ b ≠ 46 :: 46 :: 46 :: t := by
      intro t ht
      rcases pre with _ | ⟨c0, _ | ⟨c1, _ | ⟨c2, r⟩⟩⟩
      · simp at ht; exact n1 ht.1
      · simp at ht; exact n1 ht.2.1
      · simp at ht; exact n1 ht.2.2.1
      · simp at ht
        exact hx' (r ++ [w1]) (by simp [ht.1, ht.2.1, ht.2.2.1])
    have hyb : ∀ t, pre ++ [w2] ≠ 46 :: 46 :: 46 :: t := by
      intro t ht
      rcases pre with _ | ⟨c0, _ | ⟨c1, _ | ⟨c2, r⟩⟩⟩
      · simp at ht
      · simp at ht
      · simp at ht; exact n2 ht.2.2.1
      · simp at ht
        exact hx' (r ++ [w1]) (by simp [ht.1, ht.2.1, ht.2.2.1])
    rw [hno _ hxb, hno _ hyb]

theorem matchWord_sbl (x y b : Bytes) (h : SBL x y) : matchWord (x ++ b) = matchWord y := by
  rcases sbl_first h with ⟨c, r, r', rfl, rfl, hcb, hr⟩ | ⟨c, d, r, r', rfl, rfl, hc, hd⟩
  · obtain ⟨s1, e1, _, _⟩ := spanB_sbl1 isWordB noBlank_word r r' b hr
    simp only [List.cons_append, matchWord, s1]
  · have n1 : isIdentStartB c = false := by rcases blank_cases hc with rfl | rfl | rfl | rfl <;> decide
    have n2 : isIdentStartB d = false := by rcases blank_cases hd with rfl | rfl | rfl | rfl <;> decide
    simp [matchWord, n1, n2]

theorem startsNumber_canon (pre : Bytes) (w : Nat) (hw : isBlank w = true) (b : Bytes) :
    startsNumber (pre ++ w :: b) = startsNumber (pre ++ [10]) := by
  have f1 : isDigitB w = false := noBlank_digit.of_blank hw
  have n43 : w ≠ 43 := blank_ne hw 43 (by decide)
  have n45 : w ≠ 45 := blank_ne hw 45 (by decide)
  have n46 : w ≠ 46 := blank_ne hw 46 (by decide)
  rcases pre with _ | ⟨c0, _ | ⟨c1, r⟩⟩
  · rcases blank_cases hw with rfl | rfl | rfl | rfl <;> cases b <;> simp [startsNumber, isDigitB]
  · rcases blank_cases hw with rfl | rfl | rfl | rfl <;> simp [startsNumber, isDigitB]
  · simp [startsNumber]

theorem startsNumber_sbl (x y b : Bytes) (h : SBL x y) : startsNumber (x ++ b) = startsNumber y :=
  canon_to_sbl startsNumber startsNumber_canon x y b h

theorem nextIsAlnum_sbl (ual : List Nat) (x y b : Bytes) (h : SBL x y) : nextIsAlnum ual (x ++ b) = nextIsAlnum ual y := by
  rcases sbl_first h with ⟨c, r, r', rfl, rfl, hcb, hr⟩ | ⟨c, d, r, r', rfl, rfl, hc, hd⟩
  · obtain ⟨d1, _, d3, _⟩ := decodeRune_sbl c r r' b [] h hcb
    simp only [List.cons_append] at d1
    simp only [List.cons_append, nextIsAlnum, d1, d3]
  · obtain ⟨k1, _, _⟩ := isBlank_lt hc
    obtain ⟨j1, _, _⟩ := isBlank_lt hd
    have n1 : isWordB c = false := noBlank_word.of_blank hc
    have n2 : isWordB d = false := noBlank_word.of_blank hd
    simp [nextIsAlnum, k1, j1, n1, n2]
end

/-! ### numbers -/
theorem numSign_blank (w : Nat) (hw : isBlank w = true) (t : Bytes) : numSign (w :: t) = ([], w :: t) := by
  have n1 : w ≠ 43 := blank_ne hw 43 (by decide)
  have n2 : w ≠ 45 := blank_ne hw 45 (by decide)
  unfold numSign; split <;> simp_all

theorem numSign_sbl (x y b : Bytes) (h : SBL x y) :
    numSign (x ++ b) = ((numSign y).1, (numSign x).2 ++ b) ∧ SBL (numSign x).2 (numSign y).2 := by
  rcases sbl_first h with ⟨c, r, r', rfl, rfl, hcb, hr⟩ | ⟨c, d, r, r', rfl, rfl, hc, hd⟩
  · by_cases h43 : c = 43
    · subst h43; exact ⟨rfl, hr⟩
    · by_cases h45 : c = 45
      · subst h45; exact ⟨rfl, hr⟩
      · have : ∀ t, numSign (c :: t) = ([], c :: t) := by
          intro t; unfold numSign; split <;> simp_all
        rw [List.cons_append, this, this, this]
        exact ⟨rfl, h⟩
  · rw [List.cons_append, numSign_blank c hc, numSign_blank c hc, numSign_blank d hd]
    exact ⟨rfl, h⟩

theorem numPre_blank (w : Nat) (hw : isBlank w = true) (t : Bytes) : numPre (w :: t) = ([], isDigitB, w :: t) :=
  numPre_cons w t (blank_ne hw 48 (by decide))

theorem numPre_sbl (x y b : Bytes) (h : SBL x y) :
    numPre (x ++ b) = ((numPre y).1, (numPre y).2.1, (numPre x).2.2 ++ b) ∧ SBL (numPre x).2.2 (numPre y).2.2 ∧
      NoBlank (numPre y).2.1 := by
  have nbin : NoBlank (fun b => b == 48 || b == 49) := ⟨by decide, by decide, by decide, by decide⟩
  have noct : NoBlank (fun b => decide (48 ≤ b) && decide (b ≤ 55)) := ⟨by decide, by decide, by decide, by decide⟩
  rcases sbl_first h with ⟨c, r, r', rfl, rfl, hcb, hr⟩ | ⟨c, d, r, r', rfl, rfl, hc, hd⟩
  · by_cases h0 : c = 48
    · subst h0
      rcases sbl_first hr with ⟨c1, t, t', rfl, rfl, _, ht⟩ | ⟨c1, d1, t, t', rfl, rfl, hc1, hd1⟩
      · simp only [List.cons_append, numPre_48]
        repeat' split
        all_goals first
          | exact ⟨rfl, ht, noBlank_hex⟩
          | exact ⟨rfl, ht, nbin⟩
          | exact ⟨rfl, ht, noct⟩
          | exact ⟨rfl, hr, noBlank_digit⟩
      · have e : ∀ (w : Nat) (u : Bytes), isBlank w = true → numPre (48 :: w :: u) = ([48], isDigitB, w :: u) := by
          intro w u hw
          have a1 := blank_ne hw 120 (by decide); have a2 := blank_ne hw 88 (by decide)
          have a3 := blank_ne hw 98 (by decide); have a4 := blank_ne hw 66 (by decide)
          have a5 := blank_ne hw 111 (by decide); have a6 := blank_ne hw 79 (by decide)
          simp [numPre_48, a1, a2, a3, a4, a5, a6]
        simp only [List.cons_append, e c1 _ hc1, e d1 _ hd1]
        exact ⟨trivial, hr, noBlank_digit⟩
    · simp only [List.cons_append, numPre_cons _ _ h0]
      exact ⟨trivial, h, noBlank_digit⟩
  · simp only [List.cons_append, numPre_blank c hc, numPre_blank d hd]
    exact ⟨trivial, h, noBlank_digit⟩

theorem numFrac_sbl (dp : Nat → Bool) (hdp : NoBlank dp) (x y b : Bytes) (h : SBL x y) :
    numFrac dp (x ++ b) = ((numFrac dp y).1, (numFrac dp x).2 ++ b) ∧ SBL (numFrac dp x).2 (numFrac dp y).2 := by
  rcases sbl_first h with ⟨c, r, r', rfl, rfl, hcb, hr⟩ | ⟨c, d, r, r', rfl, rfl, hc, hd⟩
  · by_cases hc : c = 46
    · subst hc
      obtain ⟨s1, e1, l1, _⟩ := spanB_sbl1 dp hdp r r' b hr
      simp only [List.cons_append, numFrac, s1]
      exact ⟨trivial, l1⟩
    · have : ∀ t, numFrac dp (c :: t) = ([], c :: t) := by
        intro t; unfold numFrac; split <;> simp_all
      rw [List.cons_append, this, this, this]
      exact ⟨rfl, h⟩
  · have e : ∀ (w : Nat) (t : Bytes), isBlank w = true → numFrac dp (w :: t) = ([], w :: t) := by
      intro w t hw
      have := blank_ne hw 46 (by decide)
      unfold numFrac; split <;> simp_all
    rw [List.cons_append, e c _ hc, e c _ hc, e d _ hd]
    exact ⟨rfl, h⟩

theorem numExp_sbl (x y b : Bytes) (h : SBL x y) : numExp (x ++ b) = numExp y := by
  rcases sbl_first h with ⟨c, r, r', rfl, rfl, hcb, hr⟩ | ⟨c, d, r, r', rfl, rfl, hc, hd⟩
  · rw [List.cons_append, numExp_cons, numExp_cons]
    split
    · obtain ⟨s1, l1⟩ := numSign_sbl r r' b hr
      have s1' : expSign (r ++ b) = ((expSign r').1, (expSign r).2 ++ b) := s1
      have l1' : SBL (expSign r).2 (expSign r').2 := l1
      obtain ⟨s2, _, _, _⟩ := spanB_sbl1 isDigitB noBlank_digit _ _ b l1'
      rw [s1']
      simp only [s2]
    · rfl
  · have e : ∀ (w : Nat) (t : Bytes), isBlank w = true → numExp (w :: t) = [] := by
      intro w t hw
      have : (w == 101 || w == 69) = false := by rcases blank_cases hw with rfl | rfl | rfl | rfl <;> decide
      rw [numExp_cons]; simp [this]
    rw [List.cons_append, e c _ hc, e d _ hd]

theorem scanNumber_sbl (x y b : Bytes) (h : SBL x y) : scanNumber (x ++ b) = scanNumber y := by
  rw [scanNumber_staged, scanNumber_staged]
  obtain ⟨s1, e1⟩ := numSign_sbl x y b h
  rw [s1]
  simp only
  obtain ⟨s2, e2, hdp⟩ := numPre_sbl _ _ b e1
  rw [s2]
  simp only
  obtain ⟨s3, _, e3, _⟩ := spanB_sbl1 _ hdp _ _ b e2
  rw [s3]
  simp only
  obtain ⟨s4, e4⟩ := numFrac_sbl _ hdp _ _ b e3
  rw [s4]
  simp only
  rw [numExp_sbl _ _ b e4]

/-! ### strings and size declarations -/
theorem indexOf_trunc (P : Nat → Bool) (t : Bytes) : ∀ (z : Bytes) (i : Nat), indexOf P (z ++ t) = some i → i < z.length →
    indexOf P z = some i
  | [], i, _, hi => by simp at hi
  | a :: z, i, h, hi => by
    simp only [List.cons_append, indexOf] at h ⊢
    split
    · rename_i ha; simpa [ha] using h
    · rename_i ha
      simp only [ha] at h
      cases hr : indexOf P (z ++ t) with
      | none => rw [hr] at h; simp at h
      | some j =>
        rw [hr] at h
        simp at h
        subst h
        rw [indexOf_trunc P t z j hr (by simp at hi; omega)]
        rfl

/-- an index found in `z ++ [c]` at a byte that is not `c` lies inside `z` -/
theorem indexOf_inside (P : Nat → Bool) (z : Bytes) (c : Nat) (hc : P c = false) (i : Nat)
    (h : indexOf P (z ++ [c]) = some i) : i < z.length := by
  obtain ⟨pre, d, post, e1, e2, e3, _⟩ := indexOf_spec P _ i h
  by_cases hi : i < z.length
  · exact hi
  · exfalso
    have hl := congrArg List.length e1
    simp at hl
    have hpost : post = [] := by
      cases post with
      | nil => rfl
      | cons x xs => simp at hl; omega
    subst hpost
    have := List.append_inj' e1 rfl
    have hd : c = d := by simpa using this.2
    rw [← hd, hc] at e3
    cases e3

theorem scanQuoted_blank (p : Bytes) (w : Nat) (hw : isBlank w = true) (b raw : Bytes)
    (h : scanQuoted (p ++ [10]) = some raw) : scanQuoted (p ++ w :: b) = some raw := by
  cases p with
  | nil => simp [scanQuoted] at h
  | cons c p' =>
    by_cases hc : c = 34
    · subst hc
      simp only [List.cons_append, scanQuoted] at h ⊢
      cases hi : indexOf (fun x => x == 34) (p' ++ [10]) with
      | none => rw [hi] at h; cases h
      | some i =>
        rw [hi] at h
        have hil : i < p'.length := indexOf_inside _ p' 10 (by decide) i hi
        have hi' := indexOf_trunc _ [10] p' i hi hil
        rw [indexOf_append_some _ (w :: b) p' i hi']
        simp only at h ⊢
        have t1 : (p' ++ w :: b).take (i + 1) = p'.take (i + 1) := List.take_append_of_le_length (by omega)
        have t2 : (p' ++ [10]).take (i + 1) = p'.take (i + 1) := List.take_append_of_le_length (by omega)
        rw [t1]
        rw [t2] at h
        -- the line break of the canonical text is not in front of the closing quote
        have hraw : raw = 34 :: p'.take (i + 1) := by
          split at h
          · split at h
            · cases h
            · injection h with h; exact h.symm
          · injection h with h; exact h.symm
        have hnl : ∀ j, indexOf (fun b => b == 13 || b == 10) p' = some j → ¬ j < i := by
          intro j hj hji
          rw [indexOf_append_some _ [10] p' j hj] at h
          simp [hji] at h
        cases hj : indexOf (fun b => b == 13 || b == 10) (p' ++ w :: b) with
        | none => rw [hraw]
        | some j =>
          simp only
          by_cases hji : j < i
          · exfalso
            exact hnl j (indexOf_trunc _ (w :: b) p' j hj (by omega)) hji
          · rw [if_neg hji, hraw]
    · exfalso
      unfold scanQuoted at h
      split at h
      · rename_i heq; injection heq with h1 _; exact hc h1
      · cases h

/-- a scan that stops at least two bytes before the end does not depend on the last byte -/
theorem spanB_dropLast (p : Nat → Bool) (c : Nat) : ∀ s : Bytes, 2 ≤ (spanB p (s ++ [c])).2.length →
    (spanB p (s ++ [c])).1 = (spanB p s).1 ∧ (spanB p (s ++ [c])).2 = (spanB p s).2 ++ [c] ∧ (spanB p s).2 ≠ []
  | [], h => by
    simp only [List.nil_append, spanB] at h
    split at h <;> simp at h
  | a :: s, h => by
    simp only [List.cons_append, spanB] at h ⊢
    by_cases ha : p a = true
    · simp only [ha, if_true] at h ⊢
      obtain ⟨i1, i2, i3⟩ := spanB_dropLast p c s h
      exact ⟨by rw [i1], i2, i3⟩
    · simp only [ha, Bool.false_eq_true, if_false]
      refine ⟨?_, ?_, ?_⟩ <;> simp

theorem optBlank_dropLast (d s : Bytes) (c : Nat) (h : 2 ≤ (optBlank d (s ++ [c])).2.length) :
    (optBlank d (s ++ [c])).1 = (optBlank d s).1 ∧ (optBlank d (s ++ [c])).2 = (optBlank d s).2 ++ [c] ∧ (optBlank d s).2 ≠ [] := by
  unfold optBlank at h ⊢
  split
  · refine ⟨rfl, rfl, ?_⟩
    rename_i hd
    simp only [hd, if_true, List.length_append, List.length_singleton] at h
    intro hs; subst hs; simp at h
  · rename_i hd
    simp only [hd] at h
    exact spanB_dropLast isBlank c s h

theorem len_ge_of_append {a r : Bytes} {n : Nat} (h : n ≤ r.length) : n ≤ (a ++ r).length := by
  simp; omega

theorem sizeRange_dropLast (s : Bytes) (c : Nat) (h : 2 ≤ (sizeRange (s ++ [c])).2.2.length) :
    (sizeRange (s ++ [c])).1 = (sizeRange s).1 ∧ (sizeRange (s ++ [c])).2.1 = (sizeRange s).2.1 ∧
      (sizeRange (s ++ [c])).2.2 = (sizeRange s).2.2 ++ [c] := by
  unfold sizeRange at h ⊢
  simp only at h ⊢
  have c3 := optBlank_spec (spanB isDigitB (spanB isBlank (s ++ [c])).2).1 (spanB isDigitB (spanB isBlank (s ++ [c])).2).2
  have c2 := (spanB_spec isDigitB (spanB isBlank (s ++ [c])).2).1
  have h2 : 2 ≤ (spanB isDigitB (spanB isBlank (s ++ [c])).2).2.length := by
    rw [← c3]; exact len_ge_of_append h
  have h1 : 2 ≤ (spanB isBlank (s ++ [c])).2.length := by
    rw [← c2]; exact len_ge_of_append h2
  obtain ⟨a1, a2, _⟩ := spanB_dropLast isBlank c s h1
  rw [a2] at h2 h ⊢
  obtain ⟨b1, b2, _⟩ := spanB_dropLast isDigitB c _ h2
  rw [b1, b2] at h ⊢
  obtain ⟨d1, d2, _⟩ := optBlank_dropLast _ _ c h
  simp only [a1, d1, d2]
  exact ⟨trivial, trivial, trivial⟩

theorem sizeMid_default (s : Bytes) (h : ∀ r, s ≠ 46 :: 46 :: r) : sizeMid s = ([], false, s) := by
  unfold sizeMid
  split
  · rename_i r; exact absurd rfl (h r)
  · rfl

theorem sizeMid_dropLast (s : Bytes) (c : Nat) (h : 2 ≤ (sizeMid (s ++ [c])).2.2.length) :
    (sizeMid (s ++ [c])).1 = (sizeMid s).1 ∧ (sizeMid (s ++ [c])).2.1 = (sizeMid s).2.1 ∧
      (sizeMid (s ++ [c])).2.2 = (sizeMid s).2.2 ++ [c] := by
  by_cases hs : ∃ r, s = 46 :: 46 :: r
  · obtain ⟨r, rfl⟩ := hs
    simp only [List.cons_append, sizeMid] at h ⊢
    exact sizeRange_dropLast r c h
  · have hs' : ∀ r, s ≠ 46 :: 46 :: r := fun r hr => hs ⟨r, hr⟩
    by_cases hsc : ∃ r, s ++ [c] = 46 :: 46 :: r
    · exfalso
      obtain ⟨r, hr⟩ := hsc
      rcases s with _ | ⟨a, _ | ⟨b, s'⟩⟩
      · simp at hr
      · simp at hr
        obtain ⟨rfl, rfl, rfl⟩ := hr
        simp [sizeMid, sizeRange, optBlank, spanB] at h
      · simp at hr
        exact hs' s' (by rw [hr.1, hr.2.1])
    · have hsc' : ∀ r, s ++ [c] ≠ 46 :: 46 :: r := fun r hr => hsc ⟨r, hr⟩
      rw [sizeMid_default _ hs', sizeMid_default _ hsc']
      exact ⟨rfl, rfl, rfl⟩

/-- a size declaration that is complete before the last byte of the text does not depend on it -/
theorem scanSizeBody_dropLast (z : Bytes) (c : Nat) (raw : Bytes) (h : scanSizeBody (z ++ [c]) = some raw)
    (hlen : raw.length < (z ++ [c]).length) : scanSizeBody z = some raw := by
  obtain ⟨pre, t, e1, e2⟩ := scanSizeBody_split _ _ h
  have ht : t ≠ [] := by
    intro hn; subst hn
    rw [List.append_nil] at e2
    rw [e2] at hlen
    omega
  rw [scanSizeBody_staged] at h ⊢
  simp only at h ⊢
  have s1 := (spanB_spec isBlank (z ++ [c])).1
  have s2 := (spanB_spec isDigitB (spanB isBlank (z ++ [c])).2).1
  have s3 := optBlank_spec (spanB isDigitB (spanB isBlank (z ++ [c])).2).1 (spanB isDigitB (spanB isBlank (z ++ [c])).2).2
  have s4 := sizeMid_spec (optBlank (spanB isDigitB (spanB isBlank (z ++ [c])).2).1 (spanB isDigitB (spanB isBlank (z ++ [c])).2).2).2
  cases h4 : (sizeMid (optBlank (spanB isDigitB (spanB isBlank (z ++ [c])).2).1 (spanB isDigitB (spanB isBlank (z ++ [c])).2).2).2).2.2 with
  | nil => rw [h4] at h; cases h
  | cons q t' =>
    rw [h4] at h s4
    by_cases hq : q = 93
    · subst hq
      simp only at h
      -- what follows the closing bracket is not empty: the text goes on behind the declaration
      have ht' : t' ≠ [] := by
        intro hn; subst hn
        have n1 := congrArg List.length s1
        have n2 := congrArg List.length s2
        have n3 := congrArg List.length s3
        have n4 := congrArg List.length s4
        split at h
        · injection h with h
          have n5 := congrArg List.length h
          simp only [List.length_append, List.length_cons, List.length_nil] at n1 n2 n3 n4 n5 hlen
          omega
        · cases h
      have l4 : 2 ≤ (sizeMid (optBlank (spanB isDigitB (spanB isBlank (z ++ [c])).2).1 (spanB isDigitB (spanB isBlank (z ++ [c])).2).2).2).2.2.length := by
        rw [h4]; have := List.length_pos_iff.mpr ht'; simp; omega
      have l3 : 2 ≤ (optBlank (spanB isDigitB (spanB isBlank (z ++ [c])).2).1 (spanB isDigitB (spanB isBlank (z ++ [c])).2).2).2.length := by
        rw [← s4, ← h4]; exact len_ge_of_append l4
      have l2 : 2 ≤ (spanB isDigitB (spanB isBlank (z ++ [c])).2).2.length := by
        rw [← s3]; exact len_ge_of_append l3
      have l1 : 2 ≤ (spanB isBlank (z ++ [c])).2.length := by
        rw [← s2]; exact len_ge_of_append l2
      obtain ⟨a1, a2, _⟩ := spanB_dropLast isBlank c z l1
      rw [a2] at l2 l3 l4 h4 h
      obtain ⟨b1, b2, _⟩ := spanB_dropLast isDigitB c _ l2
      rw [b1, b2] at l3 l4 h4 h
      obtain ⟨c1, c2, _⟩ := optBlank_dropLast _ _ c l3
      rw [c2] at l4 h4 h
      obtain ⟨d1, d2, d3⟩ := sizeMid_dropLast _ c l4
      rw [d3] at h4
      rw [a1, c1, d1, d2] at h
      -- the rest behind the truncated scan still starts with the closing bracket
      cases h5 : (sizeMid (optBlank (spanB isDigitB (spanB isBlank z).2).1 (spanB isDigitB (spanB isBlank z).2).2).2).2.2 with
      | nil => rw [h5] at h4; simp at h4; exact absurd h4.2 ht'
      | cons q' t'' =>
        rw [h5] at h4
        simp at h4
        rw [h4.1]
        exact h
    · exfalso
      split at h
      · rename_i heq; injection heq with h1 _; exact hq h1
      · cases h

theorem scanSize_blank (p : Bytes) (w : Nat) (b raw : Bytes) (h : scanSize (p ++ [10]) = some raw) :
    scanSize (p ++ w :: b) = some raw := by
  have hlen := scanSize_len (p ++ [10]) raw (endsLF_snoc p) h
  cases p with
  | nil => simp [scanSize] at h
  | cons c p0 =>
    by_cases hc : c = 91
    · subst hc
      simp only [List.cons_append, scanSize] at h ⊢
      cases hb : scanSizeBody (p0 ++ [10]) with
      | none => rw [hb] at h; cases h
      | some raw' =>
        rw [hb] at h
        simp at h
        subst h
        have h0 := scanSizeBody_dropLast p0 10 raw' hb (by simp at hlen ⊢; omega)
        rw [scanSizeBody_mono p0 (w :: b) raw' h0]
        rfl
    · exfalso
      unfold scanSize at h
      split at h
      · rename_i heq; injection heq with h1 _; exact hc h1
      · cases h

end Lex
end Secs
