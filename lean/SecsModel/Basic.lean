/-
Basic definitions shared by Model, Spec and the driver. Core Lean only.

Bytes and Go strings are both `List Nat` (every element < 256 by construction in the
driver and by hypothesis `IsBytes` in the theorems that need it).
-/
namespace Secs

abbrev Bytes := List Nat
abbrev Name := List Nat

def IsBytes (bs : Bytes) : Prop := ∀ b ∈ bs, b < 256

/-- big-endian, exactly `k` bytes, of `n mod 256^k` (Go: `byte(n >> (8*i))` for i = k-1 … 0). -/
def beEnc : Nat → Nat → Bytes
  | 0, _ => []
  | k+1, n => beEnc k (n / 256) ++ [n % 256]

/-- big-endian accumulate (Go: `binary.BigEndian.UintNN`, and the decoder's length loop). -/
def beDec (bs : Bytes) : Nat := bs.foldl (fun a b => a * 256 + b) 0

/-- the SEMI limit: n·w ≤ 16,777,215 -/
def maxByteSize : Nat := 16777215

/-- number of length bytes chosen by `getHeaderBytes`. -/
def nLB (n : Nat) : Nat := if n ≤ 255 then 1 else if n ≤ 65535 then 2 else 3

/-- decimal digits of a natural number, most significant first, as ASCII codes. -/
def decDigits (n : Nat) : Bytes :=
  if h : n < 10 then [48 + n] else decDigits (n / 10) ++ [48 + n % 10]
termination_by n
decreasing_by omega

/-- binary digits (strconv.FormatInt(v, 2) for v ≥ 0). -/
def binDigits (n : Nat) : Bytes :=
  if h : n < 2 then [48 + n] else binDigits (n / 2) ++ [48 + n % 2]
termination_by n
decreasing_by omega

def hexDigitUpper (d : Nat) : Nat := if d < 10 then 48 + d else 55 + d

/-- strconv.FormatInt(v, 10) -/
def intDec (v : Int) : Bytes :=
  if v < 0 then 45 :: decDigits v.natAbs else decDigits v.natAbs

def str (s : String) : Bytes := s.toUTF8.toList.map (·.toNat)

def isDigitB (b : Nat) : Bool := 48 ≤ b && b ≤ 57
def isUpperB (b : Nat) : Bool := 65 ≤ b && b ≤ 90
def isLowerB (b : Nat) : Bool := 97 ≤ b && b ≤ 122
def isAlphaB (b : Nat) : Bool := isUpperB b || isLowerB b
/-- RE2 `\w` (ASCII only) -/
def isWordB (b : Nat) : Bool := isAlphaB b || isDigitB b || b == 95
def isIdentStartB (b : Nat) : Bool := isAlphaB b || b == 95

def toUpperB (b : Nat) : Nat := if isLowerB b then b - 32 else b

/-- `strings.Repeat` -/
def rep (n : Nat) (xs : Bytes) : Bytes :=
  match n with
  | 0 => []
  | n+1 => xs ++ rep n xs

/-- span: longest prefix satisfying p, and the rest -/
def spanB (p : Nat → Bool) : Bytes → Bytes × Bytes
  | [] => ([], [])
  | b :: bs => if p b then let r := spanB p bs; (b :: r.1, r.2) else ([], b :: bs)

end Secs
