/-
Model driver: one operation per input line, one canonical result line per operation.
Core-only imports (no proofs, no Mathlib) so that it links as an executable.
-/
import SecsModel.Model.Item
import SecsModel.Model.Print
import SecsModel.Model.Ctor
import SecsModel.Model.WF
import SecsModel.Model.Msg
import SecsModel.Model.Decode
import SecsModel.Model.Fill
import SecsModel.Model.Lexer
import SecsModel.Model.Parser
import SecsModel.Model.FloatLib
import SecsModel.Model.Strconv
import SecsModel.Model.Utf8
import Driver.Proto
open Secs Secs.Proto

def showOpt (o : Option Tmpl) : String :=
  match o with
  | none => "PANIC"
  | some t => showItem t

def fmtOfName (s : String) : Option Fmt :=
  match s with
  | "list" => some .list | "binary" => some .binary | "boolean" => some .boolean | "ascii" => some .ascii
  | "i8" => some .i8 | "i1" => some .i1 | "i2" => some .i2 | "i4" => some .i4
  | "f8" => some .f8 | "f4" => some .f4
  | "u8" => some .u8 | "u1" => some .u1 | "u2" => some .u2 | "u4" => some .u4
  | _ => none

def runCtor (p : P) : Option String := do
  match p with
  | "int" :: r =>
    let (w, r) ← pNat r; let (n, r) ← pNat r; let (gs, _) ← pGoVals n r
    pure (showOpt (mkInt w gs))
  | "uint" :: r =>
    let (w, r) ← pNat r; let (n, r) ← pNat r; let (gs, _) ← pGoVals n r
    pure (showOpt (mkUint w gs))
  | "float" :: r =>
    let (w, r) ← pNat r; let (n, r) ← pNat r; let (gs, _) ← pGoVals n r
    pure (showOpt (mkFloat w gs))
  | "binary" :: r =>
    let (n, r) ← pNat r; let (gs, _) ← pGoVals n r
    pure (showOpt (mkBinary gs))
  | "boolean" :: r =>
    let (n, r) ← pNat r; let (gs, _) ← pGoVals n r
    pure (showOpt (mkBoolean gs))
  | "list" :: r =>
    let (n, r) ← pNat r; let (gs, _) ← pGoVals n r
    -- items handed to NewListNode were themselves built by factories
    if gs.any (fun g => match g with | .item t => !t.wf | _ => false) then pure "PANIC"
    else pure (showOpt (mkList gs))
  | "ascii" :: r =>
    let (s, _) ← pHex r
    pure (showOpt (mkAscii s))
  | "asciivar" :: r =>
    let (nm, r) ← pHex r; let (mn, r) ← pInt r; let (mx, _) ← pInt r
    pure (showOpt (mkAsciiVar nm mn mx))
  | _ => none

/-- `k name1 val1 … namek valk` -/
partial def pEnv : Nat → P → Option (Env × P)
  | 0, p => some ([], p)
  | n + 1, p => do
    let (nm, p) ← pHex p
    let (g, p) ← pGoVal p
    let (e, p) ← pEnv n p
    pure ((nm, g) :: e, p)

/-- message programs: steps separated by "|" -/
def splitSteps (p : P) : List P :=
  let rec go (acc : P) (out : List P) : P → List P
    | [] => (acc.reverse :: out).reverse
    | "|" :: r => go [] (acc.reverse :: out) r
    | t :: r => go (t :: acc) out r
  go [] [] p

def runStep (cur : Option Msg) (p : P) : Option (Option Msg × String) := do
  match p with
  | "new" :: r =>
    let (nm, r) ← pHex r; let (s, r) ← pInt r; let (f, r) ← pInt r; let (w, r) ← pInt r
    let (dir, r) ← pHex r; let (t, _) ← pTmpl r
    if !t.wf then pure (cur, "PANIC") else
    match mkMsg nm s f w dir t with
    | some m => pure (some m, showMsg m)
    | none => pure (cur, "PANIC")
  | "newh" :: r =>
    let (nm, r) ← pHex r; let (s, r) ← pInt r; let (f, r) ← pInt r; let (w, r) ← pInt r
    let (dir, r) ← pHex r; let (sid, r) ← pInt r; let (sys, r) ← pHex r; let (t, _) ← pTmpl r
    if !t.wf then pure (cur, "PANIC") else
    match mkHsmsMsg nm s f w dir t sid sys with
    | some m => pure (some m, showMsg m)
    | none => pure (cur, "PANIC")
  | ["wait", b] =>
    match cur with
    | none => pure (cur, "NOMSG")
    | some m =>
      match m.setWaitBit (b == "1") with
      | some m' => pure (some m', showMsg m')
      | none => pure (cur, "PANIC")
  | "fill" :: r =>
    match cur with
    | none => pure (cur, "NOMSG")
    | some m =>
      let (n, r) ← pNat r
      let (env, _) ← pEnv n r
      match m.fill env with
      | some m' => pure (some m', showMsg m')
      | none => pure (cur, "PANIC")
  | ["sess", sid, sys] =>
    match cur with
    | none => pure (cur, "NOMSG")
    | some m =>
      let sid ← sid.toInt?
      let sys ← unhex sys
      match m.setSession sid sys with
      | some m' => pure (some m', showMsg m')
      | none => pure (cur, "PANIC")
  | _ => none

def runProg (steps : List P) : Option String := do
  let mut cur : Option Msg := none
  let mut outs : List String := []
  for s in steps do
    let (c, o) ← runStep cur s
    cur := c
    outs := o :: outs
  pure (" | ".intercalate outs.reverse)

/-- `fillitem <tmpl> | k n v … | k n v …` : successive fills of one item -/
def runFillItem (steps : List P) : Option String := do
  match steps with
  | [] => none
  | first :: rest =>
    let (t, _) ← pTmpl first
    if !t.wf then pure "PANIC" else
    let mut cur := t
    let mut outs : List String := [showItem t]
    for s in rest do
      let (n, r) ← pNat s
      let (env, _) ← pEnv n r
      match cur.fill env with
      | some t' => cur := t'; outs := showItem t' :: outs
      | none => outs := "PANIC" :: outs
    pure (" | ".intercalate outs.reverse)

def showHMsg (h : Option HMsg) : String :=
  match h with
  | none => "fail"
  | some (.data m) => "data " ++ showMsg m
  | some (.ctrl hd) => s!"ctrl type={hex (ctrlType hd)} bytes={hex (ctrlEnc hd)}"

def showCtrl (o : Option Bytes) : String :=
  match o with
  | none => "PANIC"
  | some hd => s!"type={hex (ctrlType hd)} bytes={hex (ctrlEnc hd)}"

def runCtrl (p : P) : Option String := do
  match p with
  | ["raw", h] => pure (showCtrl (mkCtrl (← unhex h)))
  | ["selectreq", sid, sys] => pure (showCtrl (mkSelectReq (← sid.toNat?) (← unhex sys)))
  | ["deselectreq", sid, sys] => pure (showCtrl (mkDeselectReq (← sid.toNat?) (← unhex sys)))
  | ["linktestreq", sys] => pure (showCtrl (mkLinktestReq (← unhex sys)))
  | ["separatereq", sid, sys] => pure (showCtrl (mkSeparateReq (← sid.toNat?) (← unhex sys)))
  | ["rejectreq", sid, pt, st, sys, rc] =>
    pure (showCtrl (mkRejectReq (← sid.toNat?) (← pt.toNat?) (← st.toNat?) (← unhex sys) (← rc.toNat?)))
  | ["twice", kind, h, c1, c2] =>
    let req ← mkCtrl (← unhex h)
    let mk (c : String) : Option Bytes :=
      if kind == "selectrsp" then mkSelectRsp req (c.toNat?.getD 0)
      else if kind == "deselectrsp" then mkDeselectRsp req (c.toNat?.getD 0)
      else mkLinktestRsp req
    pure (showCtrl (mk c1) ++ " | " ++ showCtrl (mk c2) ++ " | " ++ showCtrl (some req))
  | ["selectrsp", h, st] => pure (showCtrl ((mkCtrl (← unhex h)).bind (fun r => mkSelectRsp r (st.toNat?.getD 0))))
  | ["deselectrsp", h, st] => pure (showCtrl ((mkCtrl (← unhex h)).bind (fun r => mkDeselectRsp r (st.toNat?.getD 0))))
  | ["linktestrsp", h] => pure (showCtrl ((mkCtrl (← unhex h)).bind mkLinktestRsp))
  | _ => none

def showDiag (tag : String) (d : Sml.Diag) : String :=
  s!"{tag}={d.line}:{d.col}:{d.kind.replace " " "_"}"

def showOutcome (o : Sml.Outcome) : String :=
  match o with
  | .panic => "PANIC"
  | .done msgs errs warns =>
    s!"n={msgs.length}" ++ String.join (msgs.map (fun m => " M " ++ showMsg m))
      ++ String.join (errs.map (fun d => " " ++ showDiag "err" d))
      ++ String.join (warns.map (fun d => " " ++ showDiag "warn" d))

def showTok (t : Lex.Tok) : String :=
  s!"{repr t.kind}:{hex t.val}@{t.line}:{t.col}"

def pNatList (s : String) : Option (List Nat) :=
  if s == "-" then some [] else (s.splitOn ",").mapM (·.toNat?)

def showPI (r : Strconv.PI) : String :=
  s!"{r.val} " ++ (match r.err with | none => "ok" | some .syntax => "syntax" | some .range => "range")
def showPU (r : Strconv.PU) : String :=
  s!"{r.val} " ++ (match r.err with | none => "ok" | some .syntax => "syntax" | some .range => "range")

def runLine (line : String) : String :=
  let toks := (line.splitOn " ").filter (· ≠ "")
  let res : Option String :=
    match toks with
    | "item" :: r => (pTmpl r).map (fun (t, _) => if t.wf then showItem t else "PANIC")
    | "ctor" :: r => runCtor r
    | "mprog" :: r => runProg (splitSteps r)
    | "fillitem" :: r => runFillItem (splitSteps r)
    | ["dec", h] => (unhex h).map (fun b => showHMsg (decode b))
    | "ctrl" :: r => runCtrl r
    | ["hdr", f, n] => do
      let f ← fmtOfName f; let n ← n.toNat?
      pure (match headerBytes f n with | none => "err" | some h => hex h)
    | ["fmtg", w, b] => do pure (hex (FloatLib.fmtG (← w.toNat?) (← b.toNat?)))
    | ["parsef", w, h] => do
      pure (match FloatLib.parseFloat (← w.toNat?) (← unhex h) with
        | .ok b => s!"ok {b}" | .range => "range" | .syntax => "syntax")
    | ["f64to32", b] => do pure (match FloatLib.f64to32 (← b.toNat?) with | none => "inf" | some x => toString x)
    | ["ofint", v] => do pure (toString (FloatLib.ofInt 8 (← v.toInt?)))
    | ["parseint", h, base, bits] => do pure (showPI (Strconv.parseInt (← unhex h) (← base.toNat?) (← bits.toNat?)))
    | ["parseuint", h, base, bits] => do pure (showPU (Strconv.parseUint (← unhex h) (← base.toNat?) (← bits.toNat?)))
    | ["sml", h, u] => do pure (showOutcome (Sml.parse (← pNatList u) (← unhex h)))
    | ["lex", h, u] => do pure (" ".intercalate ((Lex.lexAll (← pNatList u) (← unhex h)).map showTok))
    | ["isname", h] => do let s ← unhex h; pure s!"{isValidVarName s} {isEllipsis s}"
    | ["runes", h] => do
      let s ← unhex h
      pure (" ".intercalate ((Utf8.runes s).map (fun r => s!"{r}:{Utf8.isSpace r}")))
    | _ => none
  match res with
  | some s => s
  | none => "BADOP"

partial def loop (hIn hOut : IO.FS.Stream) : IO Unit := do
  let line ← hIn.getLine
  if line.isEmpty then return ()
  let l := String.ofList ((line.toList.reverse.dropWhile (fun c => c == '\n' || c == '\r')).reverse)
  if l == "#flush" then hOut.flush
  else hOut.putStrLn (runLine l)
  loop hIn hOut

def main : IO Unit := do
  let hIn ← IO.getStdin
  let hOut ← IO.getStdout
  loop hIn hOut
  hOut.flush
