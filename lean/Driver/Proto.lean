/-
Line protocol of the model driver: parsing of operation lines into model values and
canonical rendering of results. Not part of any proof.
-/
import SecsModel.Model.Item
import SecsModel.Model.Ctor
import SecsModel.Model.Msg
namespace Secs.Proto
open Secs

def hexVal (c : Char) : Option Nat :=
  if '0' ≤ c && c ≤ '9' then some (c.toNat - 48)
  else if 'a' ≤ c && c ≤ 'f' then some (c.toNat - 87)
  else if 'A' ≤ c && c ≤ 'F' then some (c.toNat - 55)
  else none

partial def unhexAux : List Char → List Nat → Option Bytes
  | [], acc => some acc.reverse
  | a :: b :: r, acc =>
    match hexVal a, hexVal b with
    | some x, some y => unhexAux r ((x * 16 + y) :: acc)
    | _, _ => none
  | _, _ => none

/-- "-" is the empty string -/
def unhex (s : String) : Option Bytes :=
  if s == "-" then some [] else unhexAux s.toList []

def hexDigit (n : Nat) : Char := if n < 10 then Char.ofNat (48 + n) else Char.ofNat (87 + n)

def hex (bs : Bytes) : String :=
  if bs.isEmpty then "-" else
  String.ofList (bs.foldr (fun b acc => hexDigit (b / 16 % 16) :: hexDigit (b % 16) :: acc) [])

def hexList (xs : List Bytes) : String :=
  if xs.isEmpty then "-" else ",".intercalate (xs.map (fun x => if x.isEmpty then "." else hex x))

abbrev P := List String

def pNat : P → Option (Nat × P)
  | t :: r => t.toNat?.map (·, r)
  | [] => none

def pInt : P → Option (Int × P)
  | t :: r => t.toInt?.map (·, r)
  | [] => none

def pHex : P → Option (Bytes × P)
  | t :: r => (unhex t).map (·, r)
  | [] => none

/-- `$hex` variable name -/
def varTok? (t : String) : Option Name :=
  if t.startsWith "$" then unhexAux (t.toList.drop 1) [] else none

def pSlots {α} (conv : String → Option α) : Nat → P → Option (List (Slot α) × P)
  | 0, p => some ([], p)
  | n + 1, t :: r =>
    match varTok? t with
    | some nm => (pSlots conv n r).map (fun (xs, p) => (Slot.var nm :: xs, p))
    | none =>
      match conv t with
      | some a => (pSlots conv n r).map (fun (xs, p) => (Slot.val a :: xs, p))
      | none => none
  | _ + 1, [] => none

def widthOf (t : String) : Option Nat := (String.ofList (t.toList.drop 1)).toNat?

mutual
partial def pTmpl : P → Option (Tmpl × P)
  | "L" :: r => do
    let (n, r) ← pNat r
    let (xs, r) ← pLSlots n r
    pure (.list xs, r)
  | "A" :: r => do
    let (s, r) ← pHex r
    pure (.ascii s, r)
  | "AV" :: t :: r => do
    let nm ← varTok? t
    let (mn, r) ← pInt r
    let (mx, r) ← pInt r
    pure (.asciiVar nm mn mx, r)
  | "B" :: r => do
    let (n, r) ← pNat r
    -- a negative value (refused by the factory) is mapped to an out-of-range natural
    let (xs, r) ← pSlots (fun t => t.toInt?.map (fun v => if v < 0 then 256 + v.natAbs else v.toNat)) n r
    pure (.binary xs, r)
  | "BO" :: r => do
    let (n, r) ← pNat r
    let (xs, r) ← pSlots (fun t => if t == "1" then some true else if t == "0" then some false else none) n r
    pure (.boolean xs, r)
  | "E" :: r => pure (.empty, r)
  | t :: r =>
    if t.startsWith "I" then do
      let w ← widthOf t
      let (n, r) ← pNat r
      let (xs, r) ← pSlots (fun t => t.toInt?) n r
      pure (.int w xs, r)
    else if t.startsWith "U" then do
      let w ← widthOf t
      let (n, r) ← pNat r
      let (xs, r) ← pSlots (fun t => t.toNat?) n r
      pure (.uint w xs, r)
    else if t.startsWith "F" then do
      let w ← widthOf t
      let (n, r) ← pNat r
      let (xs, r) ← pSlots (fun t => t.toNat?) n r
      pure (.float w xs, r)
    else none
  | [] => none
partial def pLSlots : Nat → P → Option (Slots × P)
  | 0, p => some (.nil, p)
  | n + 1, t :: r =>
    match varTok? t with
    | some nm => do
      let (xs, p) ← pLSlots n r
      pure (.var nm xs, p)
    | none => do
      let (x, p) ← pTmpl (t :: r)
      let (xs, p) ← pLSlots n p
      pure (.item x xs, p)
  | _ + 1, [] => none
end

/-- typed Go value: `i:<k>:<v>` `u:<k>:<v>` `f32:<bits>` `f64:<bits>` `s:<hex>` `b:0|1` `x` (other),
or `t` followed by a template -/
def pGoVal : P → Option (GoVal × P)
  | "t" :: r => (pTmpl r).map (fun (t, p) => (GoVal.item t, p))
  | "x" :: r => some (.other, r)
  | tok :: r =>
    match tok.splitOn ":" with
    | ["i", k, v] => do pure (.sint (← k.toNat?) (← v.toInt?), r)
    | ["u", k, v] => do pure (.uint (← k.toNat?) (← v.toNat?), r)
    | ["f32", b] => do pure (.f32 (← b.toNat?), r)
    | ["f64", b] => do pure (.f64 (← b.toNat?), r)
    | ["s", h] => do pure (.str (← unhex h), r)
    | ["b", "1"] => some (.bool true, r)
    | ["b", "0"] => some (.bool false, r)
    | _ => none
  | [] => none

partial def pGoVals : Nat → P → Option (List GoVal × P)
  | 0, p => some ([], p)
  | n + 1, p => do
    let (g, p) ← pGoVal p
    let (gs, p) ← pGoVals n p
    pure (g :: gs, p)

/-! ### rendering -/

def showItem (t : Tmpl) : String :=
  s!"bytes={hex t.enc} str={hex t.print} vars={hexList t.vars} size={t.size} fisl={t.fillInLen}"

def showMsg (m : Msg) : String :=
  s!"name={hex m.name} s={m.stream} f={m.function} w={m.waitBit} dir={hex m.direction} sid={m.sessionID} sys={hex m.sysBytes} hdr={hex m.header} str={hex m.print} vars={hexList m.item.vars} bytes={hex m.enc} type={hex Msg.typeName}"

end Secs.Proto
